//! C01 — integer ring arithmetic is exact (add, sub, mul, sqr, cubic, pow; UBig/IBig/mixed/primitive).
use dashu_int::{IBig, UBig};
use dvh::conv::*;
use dvh::gen;
use dvh::mon::{self, catch, fail, Mon, Spec, R};
use dvh::rng::Rng;
use dvh::sites::Snap;
use dvh::{ensure, layout};
use num_bigint::{BigInt, BigUint};
use num_traits::{Pow, Zero as _};

fn max_limbs(m: &Mon, r: &mut Rng) -> usize {
    if m.thorough() {
        match r.below(100) {
            0 => 40_000,
            1..=5 => 8_000,
            6..=30 => 1_500,
            _ => 400,
        }
    } else {
        match r.below(100) {
            0..=4 => 700,
            5..=30 => 300,
            _ => 80,
        }
    }
}

fn pair(m: &Mon, r: &mut Rng) -> (Vec<u64>, Vec<u64>) {
    let mx = max_limbs(m, r);
    let a = gen::mag(r, mx);
    let b = match r.below(10) {
        0 => a.clone(),                      // equal operands (square shortcut / cancellation)
        1 => gen::shape(r, gen::nlimbs(&a)), // same length
        2 => gen::small_mag(r),              // very unbalanced
        3 => {
            // differs from a in the lowest limb only (borrow chains, shrinking results)
            let mut b = a.clone();
            if !b.is_empty() {
                b[0] = b[0].wrapping_add(r.below(3)).wrapping_sub(1);
            }
            b
        }
        _ => gen::mag(r, mx),
    };
    (a, b)
}

fn cell2(a: &[u64], b: &[u64], extra: &str) -> String {
    format!("{}x{}/{}", gen::size_class(gen::nlimbs(a)), gen::size_class(gen::nlimbs(b)), extra)
}

fn chk_u(got: &UBig, want: &BigUint, what: &str) -> R {
    if let Err(e) = layout::check_u(got) {
        return fail("layout", format!("{}: {}", what, e));
    }
    ensure!(nat_of(got) == *want, "value", "{}: got {} want {}", what, show_u(got), show_nat(want));
    Ok(())
}

fn chk_i(got: &IBig, want: &BigInt, what: &str) -> R {
    if let Err(e) = layout::check_i(got) {
        return fail("layout", format!("{}: {}", what, e));
    }
    ensure!(int_of(got) == *want, "value", "{}: got {} want {}", what, show_i(got), show_int(want));
    Ok(())
}

fn case(m: &mut Mon, r: &mut Rng, _idx: u64) {
    let (a, b) = pair(m, r);
    let (na, nb) = (r.chance(1, 2), r.chance(1, 2));
    let h = gen::hash_limbs(gen::hash_limbs(na as u64 * 2 + nb as u64, &a), &b);
    let nontriv = if gen::nlimbs(&a) >= 1 && gen::nlimbs(&b) >= 1 { Some(h) } else { None };
    let form = r.below(5);
    let desc = |op: &str| format!("{} a={}{} b={}{} form={}", op, if na { "-" } else { "" }, gen::hex(&a), if nb { "-" } else { "" }, gen::hex(&b), form);
    match r.below(16) {
        0 | 1 => {
            // UBig + UBig
            let (x, y) = (ubig(&a), ubig(&b));
            let want = nat(&a) + nat(&b);
            m.check("ubig_add", &cell2(&a, &b, ""), nontriv, &|| desc("ubig_add"), || {
                let got = match form {
                    0 => x.clone() + y.clone(),
                    1 => &x + &y,
                    2 => x.clone() + &y,
                    3 => &x + y.clone(),
                    _ => {
                        let mut t = x.clone();
                        t += &y;
                        t
                    }
                };
                chk_u(&got, &want, "a+b")
            });
        }
        2 | 3 => {
            // UBig - UBig: exact when a >= b, panics otherwise
            let (x, y) = (ubig(&a), ubig(&b));
            let (ma, mb) = (nat(&a), nat(&b));
            m.check("ubig_sub", &cell2(&a, &b, if ma >= mb { "ge" } else { "lt" }), nontriv, &|| desc("ubig_sub"), || {
                let res = catch(|| match form {
                    0 => x.clone() - y.clone(),
                    1 => &x - &y,
                    2 => x.clone() - &y,
                    3 => &x - y.clone(),
                    _ => {
                        let mut t = x.clone();
                        t -= &y;
                        t
                    }
                });
                if ma >= mb {
                    match res {
                        Ok(got) => chk_u(&got, &(&ma - &mb), "a-b"),
                        Err(p) => fail("unexpected_panic", format!("a>=b but UBig subtraction panicked: {}", p)),
                    }
                } else {
                    match res {
                        Ok(got) => fail("no_panic", format!("a<b but UBig subtraction returned {}", show_u(&got))),
                        Err(_) => Ok(()),
                    }
                }
            });
        }
        4 | 5 => {
            // IBig +/- IBig
            let (x, y) = (ibig(na, &a), ibig(nb, &b));
            let (mx, my) = (int(na, &a), int(nb, &b));
            let sub = r.bool();
            let want = if sub { &mx - &my } else { &mx + &my };
            let op = if sub { "ibig_sub" } else { "ibig_add" };
            let signs = format!("{}{}", if na { '-' } else { '+' }, if nb { '-' } else { '+' });
            m.check(op, &cell2(&a, &b, &signs), nontriv, &|| desc(op), || {
                let got = match (form, sub) {
                    (0, false) => x.clone() + y.clone(),
                    (1, false) => &x + &y,
                    (2, false) => x.clone() + &y,
                    (3, false) => &x + y.clone(),
                    (_, false) => {
                        let mut t = x.clone();
                        t += y.clone();
                        t
                    }
                    (0, true) => x.clone() - y.clone(),
                    (1, true) => &x - &y,
                    (2, true) => x.clone() - &y,
                    (3, true) => &x - y.clone(),
                    (_, true) => {
                        let mut t = x.clone();
                        t -= y.clone();
                        t
                    }
                };
                chk_i(&got, &want, "a±b")
            });
        }
        6 => {
            // mixed UBig/IBig add/sub
            let (x, y) = (ubig(&a), ibig(nb, &b));
            let (mx, my) = (BigInt::from(nat(&a)), int(nb, &b));
            let which = r.below(4);
            let want = match which {
                0 => &mx + &my,
                1 => &mx - &my,
                2 => &my + &mx,
                _ => &my - &mx,
            };
            m.check("mixed_addsub", &cell2(&a, &b, &format!("w{}", which)), nontriv, &|| desc("mixed_addsub"), || {
                let got: IBig = match which {
                    0 => {
                        if form % 2 == 0 {
                            &x + &y
                        } else {
                            x.clone() + y.clone()
                        }
                    }
                    1 => {
                        if form % 2 == 0 {
                            &x - &y
                        } else {
                            x.clone() - y.clone()
                        }
                    }
                    2 => {
                        if form % 2 == 0 {
                            &y + &x
                        } else {
                            let mut t = y.clone();
                            t += &x;
                            t
                        }
                    }
                    _ => {
                        if form % 2 == 0 {
                            &y - &x
                        } else {
                            let mut t = y.clone();
                            t -= x.clone();
                            t
                        }
                    }
                };
                chk_i(&got, &want, "mixed")
            });
        }
        7 | 8 | 9 => {
            // UBig * UBig
            let (x, y) = (ubig(&a), ubig(&b));
            let want = nat(&a) * nat(&b);
            let snap = Snap::take();
            let got = catch(|| match form {
                0 => x.clone() * y.clone(),
                1 => &x * &y,
                2 => x.clone() * &y,
                3 => &x * y.clone(),
                _ => {
                    let mut t = x.clone();
                    t *= &y;
                    t
                }
            });
            let strat = format!("{}{}", snap.delta("MUL_"), {
                let s = snap.delta("SQR_");
                if s == "none" || s == "nohooks" {
                    String::new()
                } else {
                    format!("+SQR_{}", s)
                }
            });
            m.check("ubig_mul", &cell2(&a, &b, &strat), nontriv, &|| desc("ubig_mul"), || match got {
                Ok(g) => chk_u(&g, &want, "a*b"),
                Err(p) => fail("unexpected_panic", p),
            });
        }
        10 => {
            // IBig * IBig and mixed
            let (x, y) = (ibig(na, &a), ibig(nb, &b));
            let want = int(na, &a) * int(nb, &b);
            let signs = format!("{}{}", if na { '-' } else { '+' }, if nb { '-' } else { '+' });
            m.check("ibig_mul", &cell2(&a, &b, &signs), nontriv, &|| desc("ibig_mul"), || {
                let got = match form {
                    0 => x.clone() * y.clone(),
                    1 => &x * &y,
                    2 => x.clone() * &y,
                    3 => &x * y.clone(),
                    _ => {
                        let mut t = x.clone();
                        t *= &y;
                        t
                    }
                };
                chk_i(&got, &want, "a*b")?;
                let u = ubig(&a);
                let got2: IBig = if form % 2 == 0 { &u * &y } else { y.clone() * u.clone() };
                chk_i(&got2, &(BigInt::from(nat(&a)) * int(nb, &b)), "ubig*ibig")
            });
        }
        11 => {
            // sqr / cubic
            let x = ubig(&a);
            let xi = ibig(na, &a);
            let n = nat(&a);
            let snap = Snap::take();
            let s = catch(|| x.sqr());
            let strat = format!("{}+{}", snap.delta("SQR_"), snap.delta("MUL_"));
            let nt = if gen::nlimbs(&a) >= 1 { Some(h) } else { None };
            m.check("sqr", &format!("{}/{}", gen::size_class(gen::nlimbs(&a)), strat), nt, &|| desc("sqr"), || {
                match s {
                    Ok(g) => chk_u(&g, &(&n * &n), "sqr")?,
                    Err(p) => return fail("unexpected_panic", p),
                }
                chk_u(&xi.sqr(), &(&n * &n), "ibig.sqr")
            });
            if gen::nlimbs(&a) <= if m.thorough() { 5000 } else { 300 } {
                m.check("cubic", gen::size_class(gen::nlimbs(&a)), nt, &|| desc("cubic"), || {
                    chk_u(&x.cubic(), &(&n * &n * &n), "cubic")?;
                    let mi = int(na, &a);
                    chk_i(&xi.cubic(), &(&mi * &mi * &mi), "ibig.cubic")
                });
            }
        }
        12 | 13 => {
            // pow: result bounded to ~ limit bits
            let limit_bits: u64 = if m.thorough() { 64 * 6000 } else { 64 * 1200 };
            let mut forced_exp: Option<usize> = None;
            let base: Vec<u64> = match r.below(7) {
                6 => {
                    // near-root bases: b = floor(root_e(k * 2^(64 j))) + {0, 1}, so that b^e (and the partial products
                    // on the way) has long runs of zero / all-ones words just below its top: carries that skip words
                    let e = 2 + r.below(5) as u32;
                    let jmax = if r.chance(1, 4) { 40 } else { 2 * e as u64 + 2 };
                    let j = 1 + r.below(jmax);
                    let kmax = if r.bool() { 8 } else { 1 << 20 };
                    let t = BigUint::from(1 + r.below(kmax)) << (64 * j as usize);
                    let b = t.nth_root(e) + r.below(2);
                    if !r.chance(1, 4) {
                        forced_exp = Some(e as usize);
                    }
                    dvh::conv::limbs_of_nat(&b)
                }
                0 => vec![r.below(12)],
                1 => vec![r.word()],
                2 => vec![r.u64(), r.word()],
                3 => {
                    // many trailing zeros (factor-2 removal)
                    let mut v = vec![0u64; r.usize(4)];
                    v.push(r.word() << r.below(40));
                    v
                }
                4 => gen::small_mag(r),
                _ => vec![1u64 << r.below(64)],
            };
            let bits = nat(&base).bits().max(1);
            let emax = (limit_bits / bits).min(if m.thorough() { 5000 } else { 600 });
            let exp = match r.below(6) {
                0 => r.below(4),
                1 => {
                    let k = r.below(13);
                    ((1u64 << k) - r.below(2)).min(emax)
                }
                _ => r.below(emax + 1),
            } as usize;
            let exp = forced_exp.unwrap_or(exp);
            let want = Pow::pow(&nat(&base), exp);
            let x = ubig(&base);
            let xi = ibig(na, &base);
            let hh = gen::hash_limbs(exp as u64, &base);
            let nt = if exp >= 2 && gen::nlimbs(&base) >= 1 { Some(hh) } else { None };
            let d = || format!("pow base={}{} exp={}", if na { "-" } else { "" }, gen::hex(&base), exp);
            let cell = format!("b{}/e{}", gen::size_class(gen::nlimbs(&base)), match exp { 0 => "0", 1 => "1", 2 => "2", 3..=16 => "3-16", 17..=128 => "17-128", _ => ">128" });
            m.check("pow", &cell, nt, &d, || {
                chk_u(&x.pow(exp), &want, "ubig.pow")?;
                let wi = Pow::pow(&int(na, &base), exp);
                chk_i(&xi.pow(exp), &wi, "ibig.pow")
            });
        }
        _ => {
            // primitive operands
            let (x, xi) = (ubig(&a), ibig(na, &a));
            let (mx, mxi) = (nat(&a), int(na, &a));
            let p = r.word();
            let which = r.below(14);
            let d = || format!("prim a={}{} p={:#x} which={}", if na { "-" } else { "" }, gen::hex(&a), p, which);
            m.check("prim", &format!("{}/w{}", gen::size_class(gen::nlimbs(&a)), which), nontriv.map(|h| h ^ p), &d, || {
                match which {
                    0 => chk_u(&(&x + (p as u8)), &(&mx + (p as u8)), "u+u8"),
                    1 => chk_u(&((p as u16) + &x), &(&mx + (p as u16)), "u16+u"),
                    2 => chk_u(&(&x + p), &(&mx + p), "u+u64"),
                    3 => chk_u(&(&x + ((p as u128) << 40)), &(&mx + ((p as u128) << 40)), "u+u128"),
                    4 => chk_u(&(&x * (p as u32)), &(&mx * (p as u32)), "u*u32"),
                    5 => chk_u(&(p * &x), &(&mx * p), "u64*u"),
                    6 => chk_i(&(&xi + (p as i8)), &(&mxi + (p as i8)), "i+i8"),
                    7 => chk_i(&(&xi - (p as i64)), &(&mxi - (p as i64)), "i-i64"),
                    8 => chk_i(&((p as i32) - &xi), &(BigInt::from(p as i32) - &mxi), "i32-i"),
                    9 => chk_i(&(&xi * (p as i16)), &(&mxi * (p as i16)), "i*i16"),
                    10 => chk_i(&(&xi * ((p as i128) << 30)), &(&mxi * ((p as i128) << 30)), "i*i128"),
                    12 => {
                        // Sum over iterators of values and of references, including the empty one
                        let (y, yi) = (ubig(&b), ibig(nb, &b));
                        let (my, myi) = (nat(&b), int(nb, &b));
                        chk_u(&[x.clone(), y.clone(), x.clone()].into_iter().sum::<UBig>(), &(&mx + &my + &mx), "sum of values")?;
                        chk_u(&[&x, &y].into_iter().sum::<UBig>(), &(&mx + &my), "sum of references")?;
                        chk_i(&[&xi, &yi, &yi].into_iter().sum::<IBig>(), &(&mxi + &myi + &myi), "signed sum of references")?;
                        chk_i(&[xi.clone()].into_iter().sum::<IBig>(), &mxi, "signed sum of one value")?;
                        chk_u(&Vec::<UBig>::new().into_iter().sum::<UBig>(), &BigUint::zero(), "empty sum")?;
                        chk_i(&Vec::<&IBig>::new().into_iter().sum::<IBig>(), &BigInt::zero(), "empty signed sum")
                    }
                    13 => {
                        let (y, yi) = (ubig(&b), ibig(nb, &b));
                        let (my, myi) = (nat(&b), int(nb, &b));
                        chk_u(&[&x, &y].into_iter().product::<UBig>(), &(&mx * &my), "product of references")?;
                        chk_u(&[x.clone(), y.clone()].into_iter().product::<UBig>(), &(&mx * &my), "product of values")?;
                        chk_i(&[xi.clone(), yi.clone()].into_iter().product::<IBig>(), &(&mxi * &myi), "signed product of values")?;
                        chk_i(&[&xi, &yi, &xi].into_iter().product::<IBig>(), &(&mxi * &myi * &mxi), "signed product of references")?;
                        chk_u(&Vec::<&UBig>::new().into_iter().product::<UBig>(), &BigUint::from(1u8), "empty product")?;
                        chk_i(&Vec::<IBig>::new().into_iter().product::<IBig>(), &BigInt::from(1), "empty signed product")
                    }
                    _ => {
                        let res = catch(|| &x - p);
                        if mx >= BigUint::from(p) {
                            match res {
                                Ok(g) => chk_u(&g, &(&mx - p), "u-u64"),
                                Err(e) => fail("unexpected_panic", e),
                            }
                        } else if let Ok(g) = res {
                            fail("no_panic", format!("a<p but UBig - u64 returned {}", show_u(&g)))
                        } else {
                            Ok(())
                        }
                    }
                }
            });
        }
    }
    let _ = BigUint::zero();
}

fn selftest() -> Result<(), String> {
    // conversions are mutually consistent on a few values
    for limbs in [vec![], vec![1u64], vec![0, 1], vec![u64::MAX, u64::MAX, 7]] {
        let u = ubig(&limbs);
        if nat_of(&u) != nat(&limbs) {
            return Err(format!("conv mismatch for {:?}", limbs));
        }
        let bytes = u.to_le_bytes();
        if BigUint::from_bytes_le(&bytes) != nat(&limbs) {
            return Err("to_le_bytes disagrees with as_words".into());
        }
    }
    Ok(())
}

fn main() {
    mon::main(Spec {
        prop: "C01",
        quick_cases: 1_200_000,
        thorough_cases: 40_000_000,
        rule: "Directed shapes (all-ones, 2^k, 2^k±1, sparse, carry/borrow chains, equal operands, off-by-one pairs) x lengths biased to 0/1/2/3 limbs and the 24/30/192-limb algorithm thresholds, every result compared in full with num-bigint and its storage layout checked; non-trivial = both operands non-zero (pow: exponent >= 2).",
        assumptions: &["num-bigint 0.4 add/sub/mul/pow are correct", "UBig::from_words / as_words / as_sign_words are faithful (cross-checked with to_le_bytes in the self-test and by C07)"],
        required: &[("ubig_mul", false), ("MUL_KARATSUBA", false), ("MUL_TOOM3", false), ("SQR_SIMPLE", false), ("pow", false), ("ubig_sub/", false)],
        case,
        selftest: Some(selftest),
        panic_finding: None,
    });
}
