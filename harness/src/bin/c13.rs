//! C13 — reduced-ring arithmetic is the homomorphic image of integer arithmetic.
use dashu_int::{fast_div::ConstDivisor, modular::Reduced, IBig, UBig};
use dvh::conv::*;
use dvh::gen;
use dvh::mon::{self, catch, fail, Mon, Spec};
use dvh::rng::Rng;
use dvh::{ensure, layout};
use num_bigint::{BigInt, BigUint};
use num_integer::Integer;
use num_modular::Reducer;
use num_traits::{One, Zero};

fn modulus(m: &Mon, r: &mut Rng) -> Vec<u64> {
    let mx = if m.thorough() {
        match r.below(50) {
            0 => 400,
            1..=5 => 80,
            _ => 12,
        }
    } else {
        match r.below(50) {
            0 => 120,
            1..=5 => 40,
            _ => 8,
        }
    };
    let v = match r.below(14) {
        0 => vec![1],
        1 => vec![2],
        2 => vec![1u64 << r.below(64)],
        3 => vec![r.word()],
        4 => vec![r.u64() | 1 << 63],       // top bit set: shift 0
        5 => vec![r.u64() >> (1 + r.below(60))], // shift > 0
        6 => vec![r.u64(), r.word()],
        7 => vec![r.u64(), r.u64() | 1 << 63],
        8 => vec![0, 1u64 << r.below(64)],
        9 => {
            let n = 3 + r.usize(3);
            let mut v = gen::shape(r, n);
            v[n - 1] = *r.pick(&[1u64, u64::MAX, 1 << 63, 3]);
            v
        }
        10 => {
            // power of two, multi-word
            let n = 3 + r.usize(mx);
            let mut v = vec![0u64; n];
            v[n - 1] = 1 << r.below(64);
            v
        }
        11 => vec![u64::MAX; 1 + r.usize(4)],
        12 if r.chance(1, 4) => {
            // odd word counts at twice the multiplication thresholds (24 / 192 words): the cofactor update of the
            // extended gcd behind inv() multiplies two numbers of half the modulus length
            let n = *r.pick(&[25usize, 49, 51, 53, 97, 99, 193, 195]);
            gen::shape(r, n)
        }
        _ => gen::mag(r, mx),
    };
    if gen::nlimbs(&v) == 0 {
        vec![1 + r.below(5)]
    } else {
        v
    }
}

fn operand(r: &mut Rng, mlen: usize) -> Vec<u64> {
    match r.below(8) {
        0 => vec![],
        1 => gen::small_mag(r),
        2 => gen::shape(r, mlen),
        3 => gen::shape(r, mlen * 2 + 1),
        4 => vec![u64::MAX; mlen.max(1) * 2], // all ones: reduce() of maximal dwords
        5 => gen::shape(r, mlen * 3),
        _ => gen::mag(r, mlen * 3 + 2),
    }
}

fn mod_floor(x: &BigInt, m: &BigUint) -> BigUint {
    x.mod_floor(&BigInt::from(m.clone())).magnitude().clone()
}

fn res(x: &Reduced, m: &BigUint, what: &str) -> Result<BigUint, mon::Fail> {
    let v = x.residue();
    if let Err(e) = layout::check_u(&v) {
        return fail("layout", format!("{}: {}", what, e));
    }
    let n = nat_of(&v);
    if &n >= m {
        return fail("range", format!("{}: residue {} not in [0, m)", what, show_nat(&n)));
    }
    Ok(n)
}

fn case(m: &mut Mon, r: &mut Rng, _idx: u64) {
    let ml = modulus(m, r);
    let mm = nat(&ml);
    let mlen = gen::nlimbs(&ml);
    let ring = ConstDivisor::new(ubig(&ml));
    let (a, b) = (operand(r, mlen), operand(r, mlen));
    let (na, nb) = (r.bool(), r.bool());
    let (ia, ib) = (int(na, &a), int(nb, &b));
    let kind = match mlen {
        1 => {
            if ml[0] >> 63 == 1 {
                "word_s0"
            } else {
                "word"
            }
        }
        2 => "dword",
        _ => "large",
    };
    let h = gen::hash_limbs(gen::hash_limbs(gen::hash_limbs(na as u64 * 2 + nb as u64, &ml), &a), &b);
    let desc = |op: &str| format!("{} m={} a={}{} b={}{}", op, gen::hex(&ml), if na { "-" } else { "" }, gen::hex(&a), if nb { "-" } else { "" }, gen::hex(&b));
    let nt = if gen::nlimbs(&a) > 0 && gen::nlimbs(&b) > 0 && !mm.is_one() { Some(h) } else { None };
    let form = r.below(4);
    match r.below(15) {
        0..=3 => {
            m.check("ring_ops", &format!("{}/a{}", kind, gen::size_class(gen::nlimbs(&a))), nt, &|| desc("ring_ops"), || {
                ensure!(nat_of(&ring.value()) == mm, "value", "ring.value() = {}", show_u(&ring.value()));
                let x = ring.reduce(ibig(na, &a));
                let y = ring.reduce(ibig(nb, &b));
                let (ra, rb) = (mod_floor(&ia, &mm), mod_floor(&ib, &mm));
                ensure!(res(&x, &mm, "reduce(a)")? == ra, "reduce", "reduce(a) = {} want {}", show_u(&x.residue()), show_nat(&ra));
                ensure!(res(&y, &mm, "reduce(b)")? == rb, "reduce", "reduce(b) = {} want {}", show_u(&y.residue()), show_nat(&rb));
                ensure!(nat_of(&x.modulus()) == mm, "value", "modulus() = {}", show_u(&x.modulus()));
                // unsigned reduce agrees
                let xu = ring.reduce(ubig(&a));
                ensure!(res(&xu, &mm, "reduce(ubig a)")? == nat(&a) % &mm, "reduce", "reduce(ubig a)");
                let (sum, dif, prod) = match form {
                    0 => (&x + &y, &x - &y, &x * &y),
                    1 => (x.clone() + y.clone(), x.clone() - y.clone(), x.clone() * y.clone()),
                    2 => (x.clone() + &y, &x - y.clone(), x.clone() * &y),
                    _ => {
                        let (mut p, mut q, mut s) = (x.clone(), x.clone(), x.clone());
                        p += &y;
                        q -= y.clone();
                        s *= &y;
                        (p, q, s)
                    }
                };
                ensure!(res(&sum, &mm, "a+b")? == mod_floor(&(&ia + &ib), &mm), "hom", "a+b = {}", show_u(&sum.residue()));
                ensure!(res(&dif, &mm, "a-b")? == mod_floor(&(&ia - &ib), &mm), "hom", "a-b = {}", show_u(&dif.residue()));
                ensure!(res(&prod, &mm, "a*b")? == mod_floor(&(&ia * &ib), &mm), "hom", "a*b = {}", show_u(&prod.residue()));
                ensure!(res(&-&x, &mm, "-a")? == mod_floor(&-&ia, &mm), "hom", "-a = {}", show_u(&(-&x).residue()));
                ensure!(res(&-x.clone(), &mm, "-a val")? == mod_floor(&-&ia, &mm), "hom", "-a (val)");
                ensure!(res(&x.clone().dbl(), &mm, "dbl")? == mod_floor(&(&ia * 2), &mm), "hom", "dbl(a) = {}", show_u(&x.clone().dbl().residue()));
                ensure!(res(&x.sqr(), &mm, "sqr")? == mod_floor(&(&ia * &ia), &mm), "hom", "sqr(a) = {}", show_u(&x.sqr().residue()));
                // equality is equality of residues
                ensure!((x == y) == (ra == rb), "eq", "x == y is {} but residues {}", x == y, if ra == rb { "equal" } else { "differ" });
                Ok(())
            });
        }
        4 | 5 => {
            // pow
            let e = match r.below(8) {
                0 => vec![],
                1 => vec![1],
                2 => vec![2],
                3 => vec![(1u64 << r.below(64)).wrapping_sub(r.below(2))],
                4 => vec![r.u64(), r.word()],
                5 => {
                    let n = 1 + r.usize(if mlen > 20 { 1 } else { 4 });
                    gen::shape(r, n)
                }
                _ => vec![r.below(70)],
            };
            let me = nat(&e);
            let d = || format!("pow m={} a={}{} e={}", gen::hex(&ml), if na { "-" } else { "" }, gen::hex(&a), gen::hex(&e));
            let ecls = match gen::nlimbs(&e) {
                0 => "e0",
                1 => "e1w",
                2 => "e2w",
                _ => "eNw",
            };
            m.check("pow", &format!("{}/{}", kind, ecls), nt.map(|h| gen::hash_limbs(h, &e)), &d, || {
                let x = ring.reduce(ibig(na, &a));
                let got = x.pow(&ubig(&e));
                let want = BigInt::from(mod_floor(&ia, &mm)).modpow(&BigInt::from(me.clone()), &BigInt::from(mm.clone()));
                let want = if mm.is_one() { BigUint::zero() } else { want.magnitude().clone() };
                ensure!(res(&got, &mm, "pow")? == want, "hom", "a^e = {} want {}", show_u(&got.residue()), show_nat(&want));
                Ok(())
            });
        }
        6 | 7 => {
            // inverse and division; non-invertible elements by construction
            let (al, gflag) = if r.chance(1, 3) {
                // a = g*t with g | m, g > 1 when possible
                let g = mm.gcd(&nat(&gen::small_mag(r)).max(BigUint::from(2u32)));
                let g = if g.is_one() { mm.gcd(&BigUint::from(6u32 * 5 * 7)) } else { g };
                (limbs_of_nat(&(&g * nat(&gen::small_mag(r)))), true)
            } else {
                (a.clone(), false)
            };
            let ia = int(na, &al);
            let ra = mod_floor(&ia, &mm);
            let d = || format!("inv m={} a={}{} b={}{}", gen::hex(&ml), if na { "-" } else { "" }, gen::hex(&al), if nb { "-" } else { "" }, gen::hex(&b));
            m.check("inv_div", &format!("{}/{}", kind, if gflag { "crafted" } else { "random" }), nt, &d, || {
                let x = ring.reduce(ibig(na, &al));
                let y = ring.reduce(ibig(nb, &b));
                let invertible = ra.gcd(&mm).is_one(); // gcd(0, 1) = 1: everything is invertible mod 1
                let inv = catch(|| x.inv()).or_else(|p| fail("unexpected_panic", format!("inv: {}", p)))?;
                match &inv {
                    Some(v) => {
                        ensure!(invertible, "inv", "inv() = Some({}) but gcd(a, m) = {}", show_u(&v.residue()), show_nat(&ra.gcd(&mm)));
                        let vr = res(v, &mm, "inv")?;
                        let one = if mm.is_one() { BigUint::zero() } else { BigUint::one() };
                        ensure!((&vr * &ra) % &mm == one, "inv", "a * inv(a) = {} (mod m)", show_nat(&((&vr * &ra) % &mm)));
                    }
                    None => ensure!(!invertible, "inv", "inv() = None but gcd(a, m) = 1"),
                }
                // y / x = y * inv(x); panics iff x is not invertible
                let q = catch(|| match form {
                    0 => &y / &x,
                    1 => y.clone() / x.clone(),
                    2 => y.clone() / &x,
                    _ => {
                        let mut t = y.clone();
                        t /= &x;
                        t
                    }
                });
                match (q, &inv) {
                    (Ok(qv), Some(v)) => {
                        let want = (mod_floor(&ib, &mm) * res(v, &mm, "inv")?) % &mm;
                        ensure!(res(&qv, &mm, "b/a")? == want, "div", "b/a = {} want b*inv(a) = {}", show_u(&qv.residue()), show_nat(&want));
                    }
                    (Err(_), None) => {}
                    (Ok(qv), None) => return fail("no_panic", format!("division by a non-invertible element returned {}", show_u(&qv.residue()))),
                    (Err(p), Some(_)) => return fail("unexpected_panic", format!("division by an invertible element panicked: {}", p)),
                }
                Ok(())
            });
        }
        8 => {
            // mixing rings panics, also for equal moduli
            let ring2 = ConstDivisor::new(ubig(&ml));
            let ml3 = modulus(m, r);
            let ring3 = ConstDivisor::new(ubig(&ml3));
            let which = r.below(6);
            m.check("different_rings", &format!("w{}", which), Some(h ^ which), &|| format!("different_rings m={} m3={} which={}", gen::hex(&ml), gen::hex(&ml3), which), || {
                let x = ring.reduce(ubig(&a));
                let y = if which % 2 == 0 { ring2.reduce(ubig(&b)) } else { ring3.reduce(ubig(&b)) };
                let rr = match which {
                    0 | 1 => catch(|| (&x + &y).residue()),
                    2 | 3 => catch(|| (&x * &y).residue()),
                    _ => catch(|| (&x - &y).residue()),
                };
                match rr {
                    Ok(v) => fail("no_panic", format!("mixing elements of two ConstDivisor instances returned {}", show_u(&v))),
                    Err(_) => Ok(()),
                }
            });
        }
        9 => {
            // primitives into the ring
            let p = r.word();
            let which = r.below(6);
            m.check("reduce_prim", &format!("{}/w{}", kind, which), Some(h ^ p), &|| format!("reduce_prim m={} p={:#x} which={}", gen::hex(&ml), p, which), || {
                let (got, want) = match which {
                    0 => (ring.reduce(p as u8), BigInt::from(p as u8)),
                    1 => (ring.reduce(p), BigInt::from(p)),
                    2 => (ring.reduce((p as u128) << 64 | (p.rotate_left(7) as u128)), BigInt::from((p as u128) << 64 | (p.rotate_left(7) as u128))),
                    3 => (ring.reduce(p as i8), BigInt::from(p as i8)),
                    4 => (ring.reduce(p as i64), BigInt::from(p as i64)),
                    _ => (ring.reduce(((p as i128) << 64) | 5), BigInt::from(((p as i128) << 64) | 5)),
                };
                ensure!(res(&got, &mm, "reduce(prim)")? == mod_floor(&want, &mm), "reduce", "reduce({}) = {}", want, show_u(&got.residue()));
                Ok(())
            });
        }
        12 | 13 => {
            // an element takes over another element's value AND ring: clone_from / assignment / swap between two rings
            // (equal and different word counts), then arithmetic in the new ring; the source stays untouched
            let ml3 = if r.chance(1, 2) {
                // same word count as the first modulus
                let mut v = gen::shape(r, mlen);
                if gen::nlimbs(&v) != mlen {
                    v = ml.clone();
                    v[0] ^= 1 + r.below(1000);
                }
                if gen::nlimbs(&v) == 0 { vec![7] } else { v }
            } else {
                modulus(m, r)
            };
            let mm3 = nat(&ml3);
            let ring3 = ConstDivisor::new(ubig(&ml3));
            let which = r.below(4);
            let same_len = gen::nlimbs(&ml3) == mlen;
            let d = || format!("ring_handover m={} m3={} a={} b={} which={}", gen::hex(&ml), gen::hex(&ml3), gen::hex(&a), gen::hex(&b), which);
            m.check("ring_handover", &format!("{}/{}/w{}", kind, if same_len { "samelen" } else { "difflen" }, which), nt.map(|h| gen::hash_limbs(h ^ which, &ml3)), &d, || {
                let mut x = ring.reduce(ibig(na, &a));
                let y = ring3.reduce(ibig(nb, &b));
                let z = ring3.reduce(ubig(&a));
                let keep = x.clone();
                match which {
                    0 => x.clone_from(&y),
                    1 => x = y.clone(),
                    2 => {
                        let mut t = y.clone();
                        std::mem::swap(&mut x, &mut t);
                        // t now holds the old x
                        ensure!(nat_of(&t.modulus()) == mm && res(&t, &mm, "swapped out")? == mod_floor(&ia, &mm), "handover", "value swapped out changed");
                    }
                    _ => {
                        // through a same-ring clone_from first (buffer reuse), then across
                        let w = ring.reduce(ubig(&b));
                        x.clone_from(&w);
                        ensure!(res(&x, &mm, "clone_from same ring")? == nat(&b) % &mm, "handover", "clone_from within the ring = {}", show_u(&x.residue()));
                        x.clone_from(&y);
                    }
                }
                let rb3 = mod_floor(&ib, &mm3);
                ensure!(nat_of(&x.modulus()) == mm3, "handover", "modulus() after taking over an element of another ring = {} want {}", show_u(&x.modulus()), show_nat(&mm3));
                ensure!(res(&x, &mm3, "handover residue")? == rb3, "handover", "residue after handover = {} want {}", show_u(&x.residue()), show_nat(&rb3));
                ensure!(x == y, "handover", "x != y after handover");
                // arithmetic in the new ring must work and be right
                let ra3 = nat(&a) % &mm3;
                let s = catch(|| (&x + &z, &x * &z, &z - &x)).or_else(|p| fail("unexpected_panic", format!("arithmetic after handover: {}", p)))?;
                ensure!(res(&s.0, &mm3, "sum")? == (&rb3 + &ra3) % &mm3, "handover", "sum after handover = {}", show_u(&s.0.residue()));
                ensure!(res(&s.1, &mm3, "prod")? == (&rb3 * &ra3) % &mm3, "handover", "product after handover = {}", show_u(&s.1.residue()));
                ensure!(res(&s.2, &mm3, "dif")? == (&mm3 + &ra3 - &rb3) % &mm3, "handover", "difference after handover = {}", show_u(&s.2.residue()));
                // the source and the earlier clone are untouched and still belong to their rings
                ensure!(res(&y, &mm3, "source")? == rb3 && nat_of(&y.modulus()) == mm3, "handover", "source changed");
                ensure!(res(&keep, &mm, "earlier clone")? == mod_floor(&ia, &mm) && nat_of(&keep.modulus()) == mm, "handover", "earlier clone changed");
                // and mixing with the old ring must now panic (unless the rings are the same instance: they are not)
                if catch(|| (&x + &keep).residue()).is_ok() {
                    return fail("no_panic", "element handed over to another ring still adds to elements of the old ring".to_string());
                }
                Ok(())
            });
        }
        14 => {
            // inverse when a and m share a large common factor g (1..4 words; low word 1, 2^k+1, all shapes):
            // m = g*t, a = g*s: never invertible (unless g = 1); and a = s coprime by construction: check inv exactly
            let gl = match r.below(4) {
                0 => {
                    let n = 2 + r.usize(3);
                    let mut v = gen::shape(r, n);
                    v[0] = 1;
                    if gen::nlimbs(&v) < 2 { v = vec![1, 1]; }
                    v
                }
                1 => {
                    let mut v = vec![0u64; 2 + r.usize(3)];
                    v[0] = 1;
                    let n = v.len();
                    v[n - 1] = 1u64 << r.below(64);
                    v
                }
                2 => {
                    let n = 1 + r.usize(4);
                    gen::shape(r, n)
                }
                _ => gen::mag(r, 6),
            };
            let g = nat(&gl).max(BigUint::from(2u32));
            let t = nat(&gen::mag(r, 5)).max(BigUint::one());
            let s = nat(&operand(r, 2)).max(BigUint::one());
            let mm2 = &g * &t;
            let av = &g * &s;
            let ring2 = ConstDivisor::new(ubig(&limbs_of_nat(&mm2)));
            let d = || format!("inv_common_factor g={} t={} s={} neg={}", show_nat(&g), show_nat(&t), show_nat(&s), na);
            let gw = gen::nlimbs(&limbs_of_nat(&g));
            m.check("inv_common_factor", &format!("g{}w{}", gen::size_class(gw), if limbs_of_nat(&g)[0] == 1 && gw > 1 { "/low1" } else { "" }), Some(gen::hash_limbs(gen::hash_limbs(h, &limbs_of_nat(&g)), &limbs_of_nat(&s))), &d, || {
                let ai = if na { -BigInt::from(av.clone()) } else { BigInt::from(av.clone()) };
                let x = ring2.reduce(ibig(na, &limbs_of_nat(&av)));
                let ra = mod_floor(&ai, &mm2);
                ensure!(res(&x, &mm2, "reduce")? == ra, "reduce", "reduce(g*s)");
                let invertible = ra.gcd(&mm2).is_one();
                match catch(|| x.inv()).or_else(|p| fail("unexpected_panic", format!("inv: {}", p)))? {
                    Some(v) => {
                        ensure!(invertible, "inv", "inv() = Some({}) but gcd(a, m) = {}", show_u(&v.residue()), show_nat(&ra.gcd(&mm2)));
                        ensure!((res(&v, &mm2, "inv")? * &ra) % &mm2 == BigUint::one() % &mm2, "inv", "a * inv(a) != 1");
                    }
                    None => ensure!(!invertible, "inv", "inv() = None but gcd(a, m) = 1"),
                }
                let y = ring2.reduce(ubig(&b));
                if !invertible && catch(|| (&y / &x).residue()).is_ok() {
                    return fail("no_panic", "division by a non-invertible element (large common factor) returned".to_string());
                }
                // the cofactor s alone, made coprime to m by stripping common factors
                let mut sc = s.clone();
                loop {
                    let c = sc.gcd(&mm2);
                    if c.is_one() { break; }
                    sc /= c;
                }
                let xs = ring2.reduce(ubig(&limbs_of_nat(&sc)));
                let rs = &sc % &mm2;
                match catch(|| xs.inv()).or_else(|p| fail("unexpected_panic", format!("inv: {}", p)))? {
                    Some(v) => ensure!((res(&v, &mm2, "inv")? * &rs) % &mm2 == BigUint::one() % &mm2, "inv", "s * inv(s) != 1 for s coprime to m"),
                    None => ensure!(mm2.is_one() && false, "inv", "inv() = None for s coprime to m"),
                }
                Ok(())
            });
        }
        _ => {
            // num_modular::Reducer facade
            m.check("reducer", kind, nt, &|| desc("reducer"), || {
                let rg: &ConstDivisor = &ring;
                let (ua, ub) = (ubig(&a), ubig(&b));
                let (ra, rb) = (nat(&a) % &mm, nat(&b) % &mm);
                let (ta, tb) = (Reducer::transform(rg, ua.clone()), Reducer::transform(rg, ub.clone()));
                let back = |t: UBig| nat_of(&Reducer::residue(rg, t));
                ensure!(back(ta.clone()) == ra, "reducer", "residue(transform(a)) = {}", show_nat(&back(ta.clone())));
                ensure!(Reducer::check(rg, &ta), "reducer", "check(transform(a)) is false");
                ensure!(nat_of(&Reducer::modulus(rg)) == mm, "reducer", "modulus");
                ensure!(back(Reducer::add(rg, &ta, &tb)) == (&ra + &rb) % &mm, "reducer", "add = {}", show_nat(&back(Reducer::add(rg, &ta, &tb))));
                ensure!(back(Reducer::sub(rg, &ta, &tb)) == (&mm + &ra - &rb) % &mm, "reducer", "sub = {}", show_nat(&back(Reducer::sub(rg, &ta, &tb))));
                ensure!(back(Reducer::neg(rg, ta.clone())) == (&mm - &ra) % &mm, "reducer", "neg");
                ensure!(back(Reducer::dbl(rg, ta.clone())) == (&ra * 2u32) % &mm, "reducer", "dbl = {}", show_nat(&back(Reducer::dbl(rg, ta.clone()))));
                ensure!(back(Reducer::mul(rg, &ta, &tb)) == (&ra * &rb) % &mm, "reducer", "mul");
                ensure!(back(Reducer::sqr(rg, ta.clone())) == (&ra * &ra) % &mm, "reducer", "sqr");
                ensure!(Reducer::is_zero(rg, &ta) == ra.is_zero(), "reducer", "is_zero");
                let e = UBig::from(r.below(50));
                let want = ra.modpow(&nat_of(&e), &mm);
                ensure!(back(Reducer::pow(rg, ta.clone(), &e)) == want, "reducer", "pow");
                match Reducer::inv(rg, ta.clone()) {
                    Some(v) => ensure!(ra.gcd(&mm).is_one() && (back(v) * &ra) % &mm == BigUint::one() % &mm, "reducer", "inv"),
                    None => ensure!(!ra.gcd(&mm).is_one(), "reducer", "inv None although invertible"),
                }
                Ok(())
            });
        }
    }
    let _ = IBig::ZERO;
}

fn main() {
    mon::main(Spec {
        prop: "C13",
        quick_cases: 300_000,
        thorough_cases: 10_000_000,
        rule: "Moduli: 1, 2, 2^k (word and multi-word), single word with top bit set / clear (normalisation shift 0 / > 0), double word, multi-word with special top words, all-ones; operands of any sign from 0 to 3x the modulus length incl. all-ones double words; exponents 0, 1, 2, 2^k, 2^k-1, 1..4 words; non-invertible elements built as g*t with g | m; elements of a second ConstDivisor (same and different modulus) must panic; num_modular::Reducer facade on the same data; ring_handover: an element takes over value and ring of an element of another ConstDivisor (clone_from, assignment, swap; equal and different word counts) and must then report the new modulus, compute in the new ring and refuse the old one; inv_common_factor: m = g*t, a = g*s with g of 1..6 words (low word 1, 2^k+1, shapes). non-trivial = non-zero operands, modulus > 1.",
        assumptions: &["num-bigint mod_floor / modpow / gcd are correct", "modulo 1 every residue is 0 and every element is invertible (gcd(0,1) = 1)"],
        required: &[("ring_ops/word", false), ("ring_ops/dword", false), ("ring_ops/large", false), ("pow", false), ("inv_div", false), ("different_rings", false), ("reducer", false), ("ring_handover", false), ("inv_common_factor", false)],
        case,
        selftest: None,
        panic_finding: None,
    });
}
