//! C15 — all call forms of an operation agree (value or panic), clones are equal and independent.
use dashu_base::{DivEuclid, DivRem, DivRemAssign, DivRemEuclid, Gcd, RemEuclid};
use dashu_float::{round::mode, Context, FBig};
use dashu_int::{fast_div::ConstDivisor, IBig, UBig};
use dashu_ratio::{RBig, Relaxed};
use dvh::conv::*;
use dvh::gen;
use dvh::mon::{self, catch, fail, Mon, Spec, R};
use dvh::rng::Rng;
use dvh::ensure;

trait Show {
    fn show(&self) -> String;
}
macro_rules! show_display { ($($t:ty)*) => {$( impl Show for $t { fn show(&self) -> String { format!("{}", self) } } )*}; }
show_display!(u8 u16 u32 u64 u128 usize i8 i16 i32 i64 i128 isize UBig IBig RBig Relaxed);
impl<R: dashu_float::round::Round, const B: dashu_int::Word> Show for FBig<R, B> {
    fn show(&self) -> String {
        format!("{}*{}^{} (prec {})", self.repr().significand(), B, self.repr().exponent(), self.precision())
    }
}
impl<A: Show, B: Show> Show for (A, B) {
    fn show(&self) -> String {
        format!("({}, {})", self.0.show(), self.1.show())
    }
}

type Forms = Vec<(&'static str, Result<String, String>)>;

fn agree(forms: &Forms, what: &str) -> R {
    let first = &forms[0];
    for f in forms.iter().skip(1) {
        match (&first.1, &f.1) {
            (Ok(a), Ok(b)) => ensure!(a == b, "forms_differ", "{}: form {} = {} but form {} = {}", what, first.0, mon::truncate(a, 200), f.0, mon::truncate(b, 200)),
            (Err(_), Err(_)) => {}
            (Ok(a), Err(e)) => return fail("forms_differ", format!("{}: form {} = {} but form {} panics: {}", what, first.0, mon::truncate(a, 200), f.0, e)),
            (Err(e), Ok(b)) => return fail("forms_differ", format!("{}: form {} panics ({}) but form {} = {}", what, first.0, e, f.0, mon::truncate(b, 200))),
        }
    }
    Ok(())
}

/// the four ownership forms of a binary operator
macro_rules! forms4 {
    ($v:ident, $a:expr, $b:expr, $op:tt) => {{
        let (a, b) = (&$a, &$b);
        $v.push(("val_val", catch(|| (a.clone() $op b.clone()).show())));
        $v.push(("val_ref", catch(|| (a.clone() $op b).show())));
        $v.push(("ref_val", catch(|| (a $op b.clone()).show())));
        $v.push(("ref_ref", catch(|| (a $op b).show())));
    }};
}
/// plus the compound assignment forms
macro_rules! forms6 {
    ($v:ident, $a:expr, $b:expr, $op:tt, $opa:tt) => {{
        forms4!($v, $a, $b, $op);
        let (a, b) = (&$a, &$b);
        $v.push(("assign_val", catch(|| { let mut t = a.clone(); t $opa b.clone(); t.show() })));
        $v.push(("assign_ref", catch(|| { let mut t = a.clone(); t $opa b; t.show() })));
    }};
}
/// method-call trait forms `a.m(b)` in the four ownership combinations
macro_rules! mforms4 {
    ($v:ident, $a:expr, $b:expr, $m:ident) => {{
        let (a, b) = (&$a, &$b);
        $v.push((concat!(stringify!($m), "_val_val"), catch(|| a.clone().$m(b.clone()).show())));
        $v.push((concat!(stringify!($m), "_val_ref"), catch(|| a.clone().$m(b).show())));
        $v.push((concat!(stringify!($m), "_ref_val"), catch(|| a.$m(b.clone()).show())));
        $v.push((concat!(stringify!($m), "_ref_ref"), catch(|| a.$m(b).show())));
    }};
}
/// big (op) primitive in both directions, all reference combinations, and assignment
macro_rules! prim_forms {
    ($v:ident, $a:expr, $p:expr, $op:tt, $opa:tt) => {{
        let (a, p) = (&$a, &$p);
        $v.push(("big_prim", catch(|| (a.clone() $op p.clone()).show())));
        $v.push(("refbig_prim", catch(|| (a $op p.clone()).show())));
        $v.push(("big_refprim", catch(|| (a.clone() $op p).show())));
        $v.push(("refbig_refprim", catch(|| (a $op p).show())));
        $v.push(("assign_prim", catch(|| { let mut t = a.clone(); t $opa p.clone(); t.show() })));
        $v.push(("assign_refprim", catch(|| { let mut t = a.clone(); t $opa p; t.show() })));
    }};
}
macro_rules! prim_left_forms {
    ($v:ident, $a:expr, $p:expr, $op:tt) => {{
        let (a, p) = (&$a, &$p);
        $v.push(("prim_big", catch(|| (p.clone() $op a.clone()).show())));
        $v.push(("prim_refbig", catch(|| (p.clone() $op a).show())));
        $v.push(("refprim_big", catch(|| (p $op a.clone()).show())));
        $v.push(("refprim_refbig", catch(|| (p $op a).show())));
    }};
}

fn operand(m: &Mon, r: &mut Rng) -> Vec<u64> {
    match r.below(4) {
        0 | 1 => gen::small_mag(r),
        _ => gen::mag(r, if m.thorough() { 250 } else { 40 }),
    }
}

macro_rules! with_prim {
    ($r:expr, $w:expr, |$p:ident| $body:block, unsigned) => {
        match $r.below(6) {
            0 => { let $p = $w as u8; $body }
            1 => { let $p = $w as u16; $body }
            2 => { let $p = $w as u32; $body }
            3 => { let $p = $w as u64; $body }
            4 => { let $p = (($w as u128) << 64) | $w.rotate_left(13) as u128; $body }
            _ => { let $p = $w as usize; $body }
        }
    };
    ($r:expr, $w:expr, |$p:ident| $body:block, signed) => {
        match $r.below(6) {
            0 => { let $p = $w as i8; $body }
            1 => { let $p = $w as i16; $body }
            2 => { let $p = $w as i32; $body }
            3 => { let $p = $w as i64; $body }
            4 => { let $p = ((($w as u128) << 64) | $w.rotate_left(13) as u128) as i128; $body }
            _ => { let $p = $w as isize; $body }
        }
    };
}

fn case(m: &mut Mon, r: &mut Rng, _idx: u64) {
    let (al, bl) = (operand(m, r), if r.chance(1, 10) { vec![] } else { operand(m, r) });
    let (na, nb) = (r.bool(), r.bool());
    let (ua, ub) = (ubig(&al), ubig(&bl));
    let (ia, ib) = (ibig(na, &al), ibig(nb, &bl));
    let h = gen::hash_limbs(gen::hash_limbs(na as u64 * 2 + nb as u64, &al), &bl);
    let nt = if gen::nlimbs(&al) > 0 && gen::nlimbs(&bl) > 0 { Some(h) } else { None };
    let sel = r.below(100);
    let opi = r.below(8);
    let opname = ["add", "sub", "mul", "div", "rem", "and", "or", "xor"][opi as usize];
    let desc = |kind: &str| format!("{} op={} a={}{} b={}{}", kind, opname, if na { "-" } else { "" }, gen::hex(&al), if nb { "-" } else { "" }, gen::hex(&bl));
    macro_rules! each_op {
        ($mac:ident, $v:ident, $a:expr, $b:expr) => {
            match opi {
                0 => $mac!($v, $a, $b, +, +=),
                1 => $mac!($v, $a, $b, -, -=),
                2 => $mac!($v, $a, $b, *, *=),
                3 => $mac!($v, $a, $b, /, /=),
                4 => $mac!($v, $a, $b, %, %=),
                5 => $mac!($v, $a, $b, &, &=),
                6 => $mac!($v, $a, $b, |, |=),
                _ => $mac!($v, $a, $b, ^, ^=),
            }
        };
    }
    match sel {
        0..=11 => {
            m.check("ubig_ubig", opname, nt, &|| desc("ubig_ubig"), || {
                let mut v: Forms = vec![];
                each_op!(forms6, v, ua, ub);
                agree(&v, opname)
            });
        }
        12..=23 => {
            m.check("ibig_ibig", opname, nt, &|| desc("ibig_ibig"), || {
                let mut v: Forms = vec![];
                each_op!(forms6, v, ia, ib);
                agree(&v, opname)
            });
        }
        24..=31 => {
            // UBig (op) IBig and IBig (op) UBig: ownership forms; the assignment forms that exist
            m.check("mixed", opname, nt, &|| desc("mixed"), || {
                let mut v: Forms = vec![];
                match opi {
                    0 => forms4!(v, ua, ib, +),
                    1 => forms4!(v, ua, ib, -),
                    2 => forms4!(v, ua, ib, *),
                    3 => forms4!(v, ua, ib, /),
                    4 => {
                        forms4!(v, ua, ib, %);
                        v.push(("assign_ref", catch(|| { let mut t = ua.clone(); t %= &ib; t.show() })));
                        v.push(("assign_val", catch(|| { let mut t = ua.clone(); t %= ib.clone(); t.show() })));
                    }
                    5 => {
                        forms4!(v, ua, ib, &);
                        v.push(("assign_ref", catch(|| { let mut t = ua.clone(); t &= &ib; t.show() })));
                    }
                    6 => forms4!(v, ua, ib, |),
                    _ => forms4!(v, ua, ib, ^),
                }
                agree(&v, &format!("ubig {} ibig", opname))?;
                let mut v: Forms = vec![];
                each_op!(forms6, v, ia, ub);
                agree(&v, &format!("ibig {} ubig", opname))
            });
        }
        32..=43 => {
            // primitives on the right (and left where defined)
            let w = r.word();
            m.check("prim", opname, nt.map(|h| h ^ w), &|| format!("{} prim={:#x}", desc("prim"), w), || {
                let mut v: Forms = vec![];
                with_prim!(r, w, |p| {
                    match opi {
                        0 => { prim_forms!(v, ua, p, +, +=); prim_left_forms!(v, ua, p, +); }
                        1 => { prim_forms!(v, ua, p, -, -=); }
                        2 => { prim_forms!(v, ua, p, *, *=); prim_left_forms!(v, ua, p, *); }
                        3 => { prim_forms!(v, ua, p, /, /=); }
                        4 => {
                            let (a, pp) = (&ua, p);
                            v.push(("big_prim", catch(|| (a.clone() % pp).show())));
                            v.push(("refbig_prim", catch(|| (a % pp).show())));
                            v.push(("big_refprim", catch(|| (a.clone() % &pp).show())));
                            v.push(("refbig_refprim", catch(|| (a % &pp).show())));
                            v.push(("div_rem.1", catch(|| a.div_rem(pp).1.show())));
                            v.push(("div_rem_assign", catch(|| { let mut t = a.clone(); t.div_rem_assign(pp).show() })));
                        }
                        5 => {
                            let (a, pp) = (&ua, p);
                            v.push(("big_prim", catch(|| (a.clone() & pp).show())));
                            v.push(("refbig_prim", catch(|| (a & pp).show())));
                            v.push(("prim_big", catch(|| (pp & a.clone()).show())));
                            v.push(("prim_refbig", catch(|| (pp & a).show())));
                            v.push(("assign", catch(|| { let mut t = a.clone(); t &= pp; t.show() })));
                        }
                        6 => { prim_forms!(v, ua, p, |, |=); prim_left_forms!(v, ua, p, |); }
                        _ => { prim_forms!(v, ua, p, ^, ^=); prim_left_forms!(v, ua, p, ^); }
                    }
                }, unsigned);
                agree(&v, &format!("ubig {} unsigned primitive", opname))?;
                let mut v: Forms = vec![];
                with_prim!(r, w, |p| {
                    match opi {
                        0 => { prim_forms!(v, ia, p, +, +=); prim_left_forms!(v, ia, p, +); }
                        1 => { prim_forms!(v, ia, p, -, -=); }
                        2 => { prim_forms!(v, ia, p, *, *=); prim_left_forms!(v, ia, p, *); }
                        3 => { prim_forms!(v, ia, p, /, /=); }
                        4 => {
                            let (a, pp) = (&ia, p);
                            v.push(("big_prim", catch(|| (a.clone() % pp).show())));
                            v.push(("refbig_prim", catch(|| (a % pp).show())));
                            v.push(("big_refprim", catch(|| (a.clone() % &pp).show())));
                            v.push(("div_rem.1", catch(|| a.div_rem(pp).1.show())));
                        }
                        5 => { prim_forms!(v, ia, p, &, &=); prim_left_forms!(v, ia, p, &); }
                        6 => { prim_forms!(v, ia, p, |, |=); prim_left_forms!(v, ia, p, |); }
                        _ => { prim_forms!(v, ia, p, ^, ^=); prim_left_forms!(v, ia, p, ^); }
                    }
                }, signed);
                agree(&v, &format!("ibig {} signed primitive", opname))
            });
            // the edges of the primitive types on both sides (MIN / -1, MAX + 1, 0): fast paths that compute in the
            // primitive type live in single ownership arms
            let (ti, ai, pi, dl) = (r.below(6), r.usize(7), r.usize(7), r.below(3));
            macro_rules! boundary {
                ($big:ty, $t:ty, $lift:expr) => {{
                    let vals: [$t; 7] = [<$t>::MIN, <$t>::MIN + 1, (0 as $t).wrapping_sub(1), 0, 1, <$t>::MAX - 1, <$t>::MAX];
                    let (a0, p) = (vals[ai], vals[pi]);
                    let a: $big = $lift(a0, dl);
                    m.check("prim_boundary", &format!("{}/{}", stringify!($t), opname), Some((ai * 7 + pi) as u64 ^ dl << 8 ^ ti << 12 ^ opi << 16 ^ 0xb0), &|| format!("prim_boundary op={} type={} big={} prim={}", opname, stringify!($t), a, p), || {
                        let mut v: Forms = vec![];
                        match opi {
                            0 => prim_forms!(v, a, p, +, +=),
                            1 => prim_forms!(v, a, p, -, -=),
                            2 => prim_forms!(v, a, p, *, *=),
                            3 => prim_forms!(v, a, p, /, /=),
                            4 => {
                                let (a, pp) = (&a, p);
                                v.push(("big_prim", catch(|| (a.clone() % pp).show())));
                                v.push(("refbig_prim", catch(|| (a % pp).show())));
                                v.push(("big_refprim", catch(|| (a.clone() % &pp).show())));
                                v.push(("refbig_refprim", catch(|| (a % &pp).show())));
                                v.push(("div_rem.1", catch(|| a.div_rem(pp).1.show())));
                            }
                            _ => {
                                mforms4!(v, a, p, div_rem);
                                v.push(("div_rem_assign", catch(|| { let mut t = a.clone(); let rem = t.div_rem_assign(p); (t, rem).show() })));
                                v.push(("operators", catch(|| (&a / p, &a % p).show())));
                            }
                        }
                        agree(&v, &format!("{} {} {} at the edges of the type", stringify!($big), opname, stringify!($t)))
                    });
                }};
            }
            let lift_i = |v: i128, d: u64| IBig::from(v) + IBig::from(d) - IBig::ONE;
            let lift_u = |v: u128, d: u64| UBig::from(v) + UBig::from(d);
            if r.bool() {
                match ti {
                    0 => boundary!(IBig, i8, |v: i8, d| lift_i(v as i128, d)),
                    1 => boundary!(IBig, i16, |v: i16, d| lift_i(v as i128, d)),
                    2 => boundary!(IBig, i32, |v: i32, d| lift_i(v as i128, d)),
                    3 => boundary!(IBig, i64, |v: i64, d| lift_i(v as i128, d)),
                    4 => boundary!(IBig, i128, |v: i128, d| lift_i(v, d)),
                    _ => boundary!(IBig, isize, |v: isize, d| lift_i(v as i128, d)),
                }
            } else {
                match ti {
                    0 => boundary!(UBig, u8, |v: u8, d| lift_u(v as u128, d)),
                    1 => boundary!(UBig, u16, |v: u16, d| lift_u(v as u128, d)),
                    2 => boundary!(UBig, u32, |v: u32, d| lift_u(v as u128, d)),
                    3 => boundary!(UBig, u64, |v: u64, d| lift_u(v as u128, d)),
                    4 => boundary!(UBig, u128, |v: u128, d| lift_u(v, d)),
                    _ => boundary!(UBig, usize, |v: usize, d| lift_u(v as u128, d)),
                }
            }
        }
        44..=51 => {
            // trait-method forms vs operators
            m.check("div_family", "", nt, &|| desc("div_family"), || {
                let mut v: Forms = vec![];
                v.push(("(/, %)", catch(|| (&ia / &ib, &ia % &ib).show())));
                mforms4!(v, ia, ib, div_rem);
                v.push(("div_rem_assign", catch(|| { let mut t = ia.clone(); let rem = t.div_rem_assign(&ib); (t, rem).show() })));
                v.push(("div_rem_assign_val", catch(|| { let mut t = ia.clone(); let rem = t.div_rem_assign(ib.clone()); (t, rem).show() })));
                agree(&v, "ibig div_rem")?;
                let mut v: Forms = vec![];
                v.push(("(div_euclid, rem_euclid)", catch(|| ((&ia).div_euclid(&ib), (&ia).rem_euclid(&ib)).show())));
                mforms4!(v, ia, ib, div_rem_euclid);
                agree(&v, "ibig div_rem_euclid")?;
                let mut v: Forms = vec![];
                mforms4!(v, ia, ib, div_euclid);
                agree(&v, "ibig div_euclid")?;
                let mut v: Forms = vec![];
                mforms4!(v, ia, ib, rem_euclid);
                agree(&v, "ibig rem_euclid")?;
                let mut v: Forms = vec![];
                v.push(("(/, %)", catch(|| (&ua / &ub, &ua % &ub).show())));
                mforms4!(v, ua, ub, div_rem);
                mforms4!(v, ua, ub, div_rem_euclid);
                v.push(("div_rem_assign", catch(|| { let mut t = ua.clone(); let rem = t.div_rem_assign(&ub); (t, rem).show() })));
                agree(&v, "ubig div_rem")?;
                // mixed UBig / IBig operands: the trait-method form against the operators, in all four ownership forms
                let mut v: Forms = vec![];
                mforms4!(v, ia, ub, div_rem);
                v.push(("ops", catch(|| (&ia / &ub, &ia % &ub).show())));
                v.push(("ops_val", catch(|| (ia.clone() / ub.clone(), ia.clone() % ub.clone()).show())));
                agree(&v, "ibig div_rem ubig")?;
                let mut v: Forms = vec![];
                mforms4!(v, ua, ib, div_rem);
                v.push(("ops", catch(|| (&ua / &ib, &ua % &ib).show())));
                v.push(("ops_val", catch(|| (ua.clone() / ib.clone(), ua.clone() % ib.clone()).show())));
                agree(&v, "ubig div_rem ibig")?;
                let mut v: Forms = vec![];
                mforms4!(v, ia, ib, gcd);
                v.push(("gcd_ubig", catch(|| (&ua).gcd(&ub).show())));
                v.push(("gcd_mixed", catch(|| (&ua).gcd(&ib).show())));
                agree(&v, "gcd")?;
                if !ub.is_zero() {
                    let cd = ConstDivisor::new(ub.clone());
                    let mut v: Forms = vec![];
                    v.push(("plain", catch(|| (&ia / &ub, &ia % &ub).show())));
                    v.push(("const_ops", catch(|| (&ia / &cd, &ia % &cd).show())));
                    v.push(("const_ops_val", catch(|| (ia.clone() / &cd, ia.clone() % &cd).show())));
                    v.push(("const_div_rem", catch(|| (&ia).div_rem(&cd).show())));
                    v.push(("const_div_rem_val", catch(|| ia.clone().div_rem(&cd).show())));
                    v.push(("const_assign", catch(|| { let mut t = ia.clone(); let mut u = ia.clone(); t /= &cd; u %= &cd; (t, u).show() })));
                    v.push(("const_div_rem_assign", catch(|| { let mut t = ia.clone(); let rem = t.div_rem_assign(&cd); (t, rem).show() })));
                    agree(&v, "ibig by ConstDivisor")?;
                }
                Ok(())
            });
        }
        52..=57 => {
            // shifts
            let s = r.usize(300);
            m.check("shift", "", nt.map(|h| h ^ s as u64), &|| format!("{} s={}", desc("shift"), s), || {
                let mut v: Forms = vec![];
                v.push(("val", catch(|| (ia.clone() << s).show())));
                v.push(("ref", catch(|| (&ia << s).show())));
                v.push(("assign", catch(|| { let mut t = ia.clone(); t <<= s; t.show() })));
                agree(&v, "ibig <<")?;
                let mut v: Forms = vec![];
                v.push(("val", catch(|| (ia.clone() >> s).show())));
                v.push(("ref", catch(|| (&ia >> s).show())));
                v.push(("assign", catch(|| { let mut t = ia.clone(); t >>= s; t.show() })));
                agree(&v, "ibig >>")?;
                let mut v: Forms = vec![];
                v.push(("val", catch(|| (ua.clone() >> s).show())));
                v.push(("ref", catch(|| (&ua >> s).show())));
                v.push(("assign", catch(|| { let mut t = ua.clone(); t >>= s; t.show() })));
                v.push(("split_bits.1", catch(|| ua.clone().split_bits(s).1.show())));
                agree(&v, "ubig >>")?;
                let mut v: Forms = vec![];
                v.push(("val", catch(|| (ua.clone() << s).show())));
                v.push(("ref", catch(|| (&ua << s).show())));
                v.push(("assign", catch(|| { let mut t = ua.clone(); t <<= s; t.show() })));
                agree(&v, "ubig <<")
            });
        }
        58..=71 => {
            // floats: operators (all forms) vs Context method at the operator's precision
            let (sa, sb) = (gen::small_mag(r), gen::small_mag(r));
            let (ea, eb) = (r.range(-40, 40), r.range(-40, 40));
            let (pa, pb) = (1 + r.usize(40), 1 + r.usize(40));
            let fop = r.below(5);
            let fname = ["add", "sub", "mul", "div", "rem"][fop as usize];
            let sh = r.range(-50, 50) as isize;
            let d = || format!("float op={} a={}{}e{} p{} b={}{}e{} p{} shift={}", fname, if na { "-" } else { "" }, gen::hex(&sa), ea, pa, if nb { "-" } else { "" }, gen::hex(&sb), eb, pb, sh);
            let hh = gen::hash_limbs(gen::hash_limbs((ea as u64) << 32 ^ eb as u64 ^ (pa as u64) << 48 ^ (pb as u64) << 56, &sa), &sb);
            macro_rules! float_forms {
                ($R:ty, $B:literal) => {{
                    type F = FBig<$R, $B>;
                    let mk = |neg: bool, s: &[u64], e: i64, p: usize| -> F {
                        let f = F::from_parts(ibig(neg, s), e as isize);
                        // bring to the requested precision (may round)
                        f.with_precision(p).value()
                    };
                    let (a, b) = (mk(na, &sa, ea, pa), mk(nb, &sb, eb, pb));
                    let ctx: Context<$R> = Context::max(a.context(), b.context());
                    let mut v: Forms = vec![];
                    match fop {
                        0 => { forms6!(v, a, b, +, +=); v.push(("context", catch(|| ctx.add(a.repr(), b.repr()).value().show()))); }
                        1 => { forms6!(v, a, b, -, -=); v.push(("context", catch(|| ctx.sub(a.repr(), b.repr()).value().show()))); }
                        2 => { forms6!(v, a, b, *, *=); v.push(("context", catch(|| ctx.mul(a.repr(), b.repr()).value().show()))); }
                        3 => { forms6!(v, a, b, /, /=); v.push(("context", catch(|| ctx.div(a.repr(), b.repr()).value().show()))); }
                        _ => { forms6!(v, a, b, %, %=); v.push(("context", catch(|| ctx.rem(a.repr(), b.repr()).value().show()))); }
                    }
                    agree(&v, &format!("fbig {}", fname))?;
                    // the iterator folds are forms of + and *
                    if fop == 0 || fop == 2 {
                        let mut v: Forms = vec![];
                        if fop == 0 {
                            v.push(("operator", catch(|| (&a + &b).show())));
                            v.push(("sum_values", catch(|| [a.clone(), b.clone()].into_iter().sum::<F>().show())));
                            v.push(("sum_refs", catch(|| [&a, &b].into_iter().sum::<F>().show())));
                        } else {
                            v.push(("operator", catch(|| (&a * &b).show())));
                            v.push(("product_values", catch(|| [a.clone(), b.clone()].into_iter().product::<F>().show())));
                            v.push(("product_refs", catch(|| [&a, &b].into_iter().product::<F>().show())));
                        }
                        agree(&v, &format!("fbig {} through an iterator", fname))?;
                    }
                    // integer operands
                    let mut v: Forms = vec![];
                    match fop {
                        0 => { prim_forms!(v, a, ib.clone(), +, +=); v.push(("via_fbig", catch(|| (&a + F::from(ib.clone())).show()))); }
                        1 => { prim_forms!(v, a, ib.clone(), -, -=); v.push(("via_fbig", catch(|| (&a - F::from(ib.clone())).show()))); }
                        2 => { prim_forms!(v, a, ib.clone(), *, *=); v.push(("via_fbig", catch(|| (&a * F::from(ib.clone())).show()))); }
                        _ => { prim_forms!(v, a, ib.clone(), /, /=); v.push(("via_fbig", catch(|| (&a / F::from(ib.clone())).show()))); }
                    }
                    agree(&v, &format!("fbig {} ibig", fname))?;
                    // integer operand on the left (separate macro arms: the non-commutative ones must not swap)
                    let mut v: Forms = vec![];
                    match fop {
                        0 => { prim_left_forms!(v, a, ib.clone(), +); v.push(("via_fbig", catch(|| (F::from(ib.clone()) + &a).show()))); }
                        1 => { prim_left_forms!(v, a, ib.clone(), -); v.push(("via_fbig", catch(|| (F::from(ib.clone()) - &a).show()))); }
                        2 => { prim_left_forms!(v, a, ib.clone(), *); v.push(("via_fbig", catch(|| (F::from(ib.clone()) * &a).show()))); }
                        _ => { prim_left_forms!(v, a, ib.clone(), /); v.push(("via_fbig", catch(|| (F::from(ib.clone()) / &a).show()))); }
                    }
                    agree(&v, &format!("ibig {} fbig", fname))?;
                    // primitive operands on either side
                    let (pi, pu) = ((sb.first().copied().unwrap_or(3) as i64) >> 40 | 1, (sb.first().copied().unwrap_or(3) >> 57) as u8 | 1);
                    let pi = if nb { -pi } else { pi };
                    let mut v: Forms = vec![];
                    match fop {
                        0 => { prim_forms!(v, a, pi, +, +=); v.push(("via_fbig", catch(|| (&a + F::from(pi)).show()))); }
                        1 => { prim_forms!(v, a, pi, -, -=); v.push(("via_fbig", catch(|| (&a - F::from(pi)).show()))); }
                        2 => { prim_forms!(v, a, pi, *, *=); v.push(("via_fbig", catch(|| (&a * F::from(pi)).show()))); }
                        _ => { prim_forms!(v, a, pi, /, /=); v.push(("via_fbig", catch(|| (&a / F::from(pi)).show()))); }
                    }
                    agree(&v, &format!("fbig {} i64", fname))?;
                    let mut v: Forms = vec![];
                    match fop {
                        0 => { prim_left_forms!(v, a, pu, +); v.push(("via_fbig", catch(|| (F::from(pu) + &a).show()))); }
                        1 => { prim_left_forms!(v, a, pu, -); v.push(("via_fbig", catch(|| (F::from(pu) - &a).show()))); }
                        2 => { prim_left_forms!(v, a, pu, *); v.push(("via_fbig", catch(|| (F::from(pu) * &a).show()))); }
                        _ => { prim_left_forms!(v, a, pu, /); v.push(("via_fbig", catch(|| (F::from(pu) / &a).show()))); }
                    }
                    agree(&v, &format!("u8 {} fbig", fname))?;
                    // shifts
                    let mut v: Forms = vec![];
                    v.push(("shl", catch(|| (a.clone() << sh).show())));
                    v.push(("shl_assign", catch(|| { let mut t = a.clone(); t <<= sh; t.show() })));
                    v.push(("shr_neg", catch(|| (a.clone() >> (-sh)).show())));
                    v.push(("shr_assign_neg", catch(|| { let mut t = a.clone(); t >>= -sh; t.show() })));
                    agree(&v, "fbig shift")?;
                    // sqr / cubic / neg forms
                    let mut v: Forms = vec![];
                    v.push(("sqr", catch(|| a.sqr().show())));
                    v.push(("mul_self", catch(|| (&a * &a).show())));
                    v.push(("context_sqr", catch(|| a.context().sqr(a.repr()).value().show())));
                    agree(&v, "fbig sqr")
                }};
            }
            m.check("float", fname, Some(hh), &d, || match r.below(4) {
                0 => float_forms!(mode::Zero, 2),
                1 => float_forms!(mode::HalfAway, 10),
                2 => float_forms!(mode::HalfEven, 2),
                _ => float_forms!(mode::Up, 10),
            });
        }
        72..=83 => {
            // rationals
            let (cl, dl) = (gen::small_mag(r), gen::small_mag(r));
            let qop = r.below(5);
            let qname = ["add", "sub", "mul", "div", "rem"][qop as usize];
            let d = || format!("ratio op={} a={}{}/{} b={}{}/{}", qname, if na { "-" } else { "" }, gen::hex(&al), gen::hex(&cl), if nb { "-" } else { "" }, gen::hex(&bl), gen::hex(&dl));
            let hh = gen::hash_limbs(gen::hash_limbs(h, &cl), &dl);
            m.check("ratio", qname, Some(hh), &d, || {
                let (dc, dd) = (ubig(&cl) + UBig::ONE, ubig(&dl) + UBig::ONE);
                let (qa, qb) = (RBig::from_parts(ia.clone(), dc.clone()), RBig::from_parts(ib.clone(), dd.clone()));
                let (xa, xb) = (Relaxed::from_parts(ia.clone(), dc.clone()), Relaxed::from_parts(ib.clone(), dd.clone()));
                let mut v: Forms = vec![];
                let mut w: Forms = vec![];
                match qop {
                    0 => { forms6!(v, qa, qb, +, +=); forms6!(w, xa, xb, +, +=); }
                    1 => { forms6!(v, qa, qb, -, -=); forms6!(w, xa, xb, -, -=); }
                    2 => { forms6!(v, qa, qb, *, *=); forms6!(w, xa, xb, *, *=); }
                    3 => { forms6!(v, qa, qb, /, /=); forms6!(w, xa, xb, /, /=); }
                    _ => { forms6!(v, qa, qb, %, %=); forms6!(w, xa, xb, %, %=); }
                }
                agree(&v, &format!("rbig {}", qname))?;
                agree(&w, &format!("relaxed {}", qname))?;
                // Relaxed equals RBig after canonicalisation
                if let (Ok(x), Some(y)) = (&v[3].1, catch(|| match qop {
                    0 => (&xa + &xb).canonicalize().show(),
                    1 => (&xa - &xb).canonicalize().show(),
                    2 => (&xa * &xb).canonicalize().show(),
                    3 => (&xa / &xb).canonicalize().show(),
                    _ => (&xa % &xb).canonicalize().show(),
                }).ok()) {
                    ensure!(*x == y, "forms_differ", "relaxed {} canonicalises to {} but rbig gives {}", qname, y, x);
                }
                // integer operands on both sides
                let mut v: Forms = vec![];
                match qop {
                    0 => { forms4!(v, qa, ib, +); v.push(("via_rbig", catch(|| (&qa + RBig::from(ib.clone())).show()))); v.push(("int_left", catch(|| (&ib + &qa).show()))); }
                    1 => { forms4!(v, qa, ib, -); v.push(("via_rbig", catch(|| (&qa - RBig::from(ib.clone())).show()))); }
                    2 => { forms4!(v, qa, ib, *); v.push(("via_rbig", catch(|| (&qa * RBig::from(ib.clone())).show()))); v.push(("int_left", catch(|| (&ib * &qa).show()))); }
                    _ => { forms4!(v, qa, ib, /); v.push(("via_rbig", catch(|| (&qa / RBig::from(ib.clone())).show()))); }
                }
                agree(&v, &format!("rbig {} ibig", qname))?;
                let mut v: Forms = vec![];
                match qop {
                    0 => { forms4!(v, ub, qa, +); v.push(("via_rbig", catch(|| (RBig::from(ub.clone()) + &qa).show()))); }
                    1 => { forms4!(v, ub, qa, -); v.push(("via_rbig", catch(|| (RBig::from(ub.clone()) - &qa).show()))); }
                    2 => { forms4!(v, ub, qa, *); v.push(("via_rbig", catch(|| (RBig::from(ub.clone()) * &qa).show()))); }
                    _ => { forms4!(v, ub, qa, /); v.push(("via_rbig", catch(|| (RBig::from(ub.clone()) / &qa).show()))); }
                }
                agree(&v, &format!("ubig {} rbig", qname))
            });
        }
        84..=91 => {
            // reduced-ring forms
            let ml = { let mut v = gen::small_mag(r); if gen::nlimbs(&v) == 0 { v = vec![7]; } v };
            let mop = r.below(4);
            let mname = ["add", "sub", "mul", "div"][mop as usize];
            // one case in four takes the right operand from another ring instance (equal or different modulus): the ring
            // check lives in every form separately
            let other = r.below(8);
            let ml2 = if other == 1 { let mut v = gen::small_mag(r); if gen::nlimbs(&v) == 0 { v = vec![11]; } v } else { ml.clone() };
            let d = || format!("reduced op={} m={} a={} b={} right operand from {}", mname, gen::hex(&ml), gen::hex(&al), gen::hex(&bl), if other < 2 { format!("a second ring with modulus {}", gen::hex(&ml2)) } else { "the same ring".to_string() });
            m.check("reduced", &format!("{}{}", mname, if other < 2 { "/two_rings" } else { "" }), nt.map(|h| gen::hash_limbs(h, &ml) ^ other), &d, || {
                let ring = ConstDivisor::new(ubig(&ml));
                let ring2 = ConstDivisor::new(ubig(&ml2));
                let (x, y) = (ring.reduce(ia.clone()), if other < 2 { ring2.reduce(ib.clone()) } else { ring.reduce(ib.clone()) });
                let mut v: Forms = vec![];
                macro_rules! rforms {
                    ($op:tt, $opa:tt) => {{
                        v.push(("val_val", catch(|| (x.clone() $op y.clone()).residue().show())));
                        v.push(("val_ref", catch(|| (x.clone() $op &y).residue().show())));
                        v.push(("ref_val", catch(|| (&x $op y.clone()).residue().show())));
                        v.push(("ref_ref", catch(|| (&x $op &y).residue().show())));
                        v.push(("assign_val", catch(|| { let mut t = x.clone(); t $opa y.clone(); t.residue().show() })));
                        v.push(("assign_ref", catch(|| { let mut t = x.clone(); t $opa &y; t.residue().show() })));
                    }};
                }
                match mop {
                    0 => rforms!(+, +=),
                    1 => rforms!(-, -=),
                    2 => rforms!(*, *=),
                    _ => rforms!(/, /=),
                }
                agree(&v, &format!("reduced {}", mname))?;
                if mop == 2 {
                    v.clear();
                    v.push(("sqr", catch(|| x.sqr().residue().show())));
                    v.push(("mul_self", catch(|| (&x * &x).residue().show())));
                    v.push(("pow2", catch(|| x.pow(&UBig::from(2u8)).residue().show())));
                }
                if mop == 0 && other >= 2 {
                    v.push(("commuted", catch(|| (&y + &x).residue().show())));
                }
                agree(&v, &format!("reduced {}", mname))
            });
        }
        _ => {
            // clones are equal and independent
            let d = || desc("clone");
            m.check("clone", "", nt, &d, || {
                let orig_a = ia.clone();
                let mut x = ia.clone();
                let c = x.clone();
                ensure!(c == x, "clone", "clone != original");
                x += &ib;
                x *= IBig::from(3);
                ensure!(c == orig_a, "clone", "clone changed when the original was mutated: {} -> {}", orig_a, c);
                let mut host = ib.clone();
                host.clone_from(&c);
                ensure!(host == c, "clone", "clone_from result {} != source {}", host, c);
                host -= IBig::ONE;
                ensure!(c == orig_a, "clone", "source changed when the clone_from target was mutated");
                let mut y = c.clone();
                y.clone_from(&x);
                ensure!(y == x && c == orig_a, "clone", "second clone_from");
                // rationals and floats wrap the same storage
                let q = RBig::from_parts(ia.clone(), ub.clone() + UBig::ONE);
                let mut q2 = q.clone();
                q2 += RBig::ONE;
                let mut q3 = RBig::ZERO;
                q3.clone_from(&q);
                ensure!(q3 == q && q2 != q, "clone", "rbig clone independence");
                let f = FBig::<mode::Zero, 2>::from_parts(ia.clone(), 5);
                let mut f2 = f.clone();
                f2 <<= 1; // exact (exponent change), so the value differs unless it is zero
                let mut f3 = FBig::<mode::Zero, 2>::ZERO;
                f3.clone_from(&f);
                ensure!(f3 == f && (f2 != f || ia.is_zero()), "clone", "fbig clone independence");
                Ok(())
            });
        }
    }
}

fn main() {
    mon::main(Spec {
        prop: "C15",
        quick_cases: 250_000,
        thorough_cases: 8_000_000,
        rule: "Macro-generated call forms per operation: val/ref x val/ref and both compound-assignment forms for UBig, IBig, mixed UBig/IBig, 12 primitive types on the right and (where defined) on the left, div_rem/div_euclid/rem_euclid/div_rem_euclid/div_rem_assign/gcd method forms vs operators, ConstDivisor forms, shift forms, FBig operators (4 mode/base instantiations) vs Context methods at Context::max precision and vs integer operands, FBig shift forms, RBig/Relaxed forms incl. integer operands on both sides and Relaxed-vs-RBig agreement, Reduced forms, clone/clone_from independence. All forms of one operation on one operand tuple must return the same printed value or all panic. non-trivial = both operands non-zero.",
        assumptions: &["values are compared through Display / (significand, exponent, precision), which C07/C08 monitor separately"],
        required: &[("ubig_ubig", false), ("ibig_ibig", false), ("mixed", false), ("prim", false), ("div_family", false), ("shift", false), ("float", false), ("ratio", false), ("reduced", false), ("clone", false)],
        case,
        selftest: None,
        panic_finding: None,
    });
}
