//! C16 — operations terminate and panic only where the documentation says so.
//! Every case = (operation, arguments on the edge of its domain, precondition oracle). The outcome
//! (returned / panicked / fuel exhausted) is compared with the oracle: Must (panic is required),
//! Never (a panic is a violation) or May (either is documented behaviour). Loops with numeric exit
//! conditions are bounded by logical fuel (hook 3); process deaths (abort, stack overflow, OOM) are
//! located by the supervisor.
use dashu_base::{EstimatedLog2, BitTest, DivEuclid, DivRem, ExtendedGcd, Gcd, Inverse, RemEuclid, SquareRoot};
use dashu_float::{round::mode, Context, FBig, Repr};
use dashu_int::{fast_div::ConstDivisor, IBig, UBig};
use dashu_ratio::{RBig, Relaxed};
use dvh::conv::*;
use dvh::gen;
use dvh::mon::{self, catch, fail, fail_kf, Mon, Spec, R};
use dvh::rng::Rng;
use dvh::sites::set_fuel;
use std::alloc::{GlobalAlloc, Layout, System};
use std::ops::Add;
use std::str::FromStr;
use std::sync::atomic::{AtomicUsize, Ordering::Relaxed as Rlx};

/// allocation guard: a single request above the cap is refused (returns null): dashu reports it as its
/// own out-of-memory panic, std containers abort (the supervisor then reports the process death)
struct Capped;
static CAP: AtomicUsize = AtomicUsize::new(1 << 31);
static BIGGEST: AtomicUsize = AtomicUsize::new(0);
// SAFETY: forwards to the system allocator
unsafe impl GlobalAlloc for Capped {
    unsafe fn alloc(&self, l: Layout) -> *mut u8 {
        if l.size() > CAP.load(Rlx) {
            return std::ptr::null_mut();
        }
        BIGGEST.fetch_max(l.size(), Rlx);
        System.alloc(l)
    }
    unsafe fn dealloc(&self, p: *mut u8, l: Layout) {
        System.dealloc(p, l)
    }
    unsafe fn realloc(&self, p: *mut u8, l: Layout, n: usize) -> *mut u8 {
        if n > CAP.load(Rlx) {
            return std::ptr::null_mut();
        }
        System.realloc(p, l, n)
    }
}
#[global_allocator]
static GLOBAL: Capped = Capped;

#[derive(Clone, Copy, PartialEq, Debug)]
enum Exp {
    Must,
    Never,
    May,
}

/// run `f` under logical fuel and judge the outcome
fn judge(expect: Exp, fuel: u64, what: &str, f: impl FnOnce() -> String) -> R {
    set_fuel(Some(fuel));
    let res = catch(f);
    set_fuel(None);
    match res {
        Ok(v) => {
            if expect == Exp::Must {
                return fail("no_panic", format!("{}: a documented precondition was violated but the call returned {}", what, mon::truncate(&v, 120)));
            }
            Ok(())
        }
        Err(msg) => {
            if msg.contains("VERIF_FUEL_EXHAUSTED") {
                return fail("fuel_exhausted", format!("{}: loop did not finish within {} iterations ({})", what, fuel, msg));
            }
            if expect == Exp::Never {
                return fail(&format!("undocumented_panic:{}", mon::normalize_msg(&mon::truncate(&msg, 90))), format!("{}: {}", what, msg));
            }
            Ok(())
        }
    }
}

fn edge_mag(r: &mut Rng) -> Vec<u64> {
    match r.below(8) {
        0 => vec![],
        1 => vec![1],
        2 => vec![u64::MAX],
        3 => vec![0, 1],
        _ => gen::small_mag(r),
    }
}

fn edge_str(r: &mut Rng) -> String {
    let alphabet: &[&str] = &["0", "1", "9", "a", "z", "Z", "_", "+", "-", ".", "/", "e", "E", "p", "@", "x", "0x", "0b", " ", "\t", "é", "１", "\u{0}", "\u{200b}", "𝟙", "inf", "nan", "~", "#"];
    let len = r.usize(12);
    (0..len).map(|_| *r.pick(alphabet)).collect()
}

type F2 = FBig<mode::Zero, 2>;
type F10 = FBig<mode::HalfAway, 10>;

fn edge_float<Rm: dashu_float::round::Round, const B: dashu_int::Word>(r: &mut Rng) -> FBig<Rm, B> {
    match r.below(8) {
        0 => FBig::<Rm, B>::ZERO,
        1 => FBig::<Rm, B>::ONE,
        2 => FBig::<Rm, B>::NEG_ONE,
        3 => FBig::<Rm, B>::INFINITY,
        4 => FBig::<Rm, B>::NEG_INFINITY,
        5 => FBig::<Rm, B>::from_parts(ibig(r.bool(), &gen::small_mag(r)), r.range(-50, 50) as isize),
        6 => FBig::<Rm, B>::from_parts(IBig::from(r.range(-9, 9)), r.range(-400, 400) as isize),
        _ => FBig::<Rm, B>::from_parts(ibig(r.bool(), &gen::small_mag(r)), r.range(-5, 5) as isize).with_precision(1 + r.usize(30)).value(),
    }
}


/// the float API surface at its domain edges, for one (rounding mode, base) instantiation
fn float_surface<Rm: dashu_float::round::Round, const B: dashu_int::Word>(m: &mut Mon, r: &mut Rng, sel: u64) {
    let must = |c: bool| if c { Exp::Must } else { Exp::Never };
    // floats: infinities must panic in arithmetic, unlimited precision, domains
    let (x, y) = (edge_float::<Rm, B>(r), edge_float::<Rm, B>(r));
    let any_inf = x.repr().is_infinite() || y.repr().is_infinite();
    let which = sel - 20 + 8 * r.below(2);
    let d = || format!("float base={} op#{} x={:?} (prec {}) y={:?} (prec {})", B, which, x.repr(), x.precision(), y.repr(), y.precision());
    let hh = dvh::rng::hash_str(&format!("{:?}{:?}{}", x.repr(), y.repr(), which));
    let fuel = 200_000 + 4_000 * x.precision().max(y.precision()) as u64;
    let unlimited = x.precision() == 0 || (which < 4 && x.precision().max(y.precision()) == 0);
    let ctx_unl = x.precision().max(y.precision()) == 0;
    m.check("float", &format!("b{}/op{}", B, which), Some(hh), &d, || match which {
        0 => judge(must(any_inf), fuel, "add", || format!("{:?}", (&x + &y).repr())),
        1 => judge(must(any_inf), fuel, "sub", || format!("{:?}", (&x - &y).repr())),
        2 => judge(must(any_inf), fuel, "mul", || format!("{:?}", (&x * &y).repr())),
        3 => {
            // division: by zero and on infinities must panic; at unlimited precision it may panic (inexact) or be exact
            let e = if any_inf || y.repr().is_zero() { Exp::Must } else if ctx_unl { Exp::May } else { Exp::Never };
            judge(e, fuel, "div", || format!("{:?}", (&x / &y).repr()))
        }
        4 => {
            let e = if x.repr().is_infinite() || (x.repr().sign() == dashu_base::Sign::Negative && !x.repr().is_zero()) || x.precision() == 0 { Exp::Must } else { Exp::Never };
            let e = if x.precision() == 0 && x.repr().is_zero() { Exp::May } else { e };
            judge(e, fuel, "sqrt", || format!("{:?}", x.sqrt().repr()))
        }
        5 => {
            let e = if x.repr().is_infinite() || x.precision() == 0 { if x.repr().is_zero() { Exp::May } else { Exp::Must } } else { Exp::Never };
            // keep the result exponent in range: |x| <= 10^4
            if x.repr().is_finite() && x.repr().exponent() + x.repr().digits() as isize > 4 {
                return Ok(());
            }
            judge(e, fuel, "exp", || format!("{:?}", x.exp().repr()))
        }
        6 => {
            let nonpos = x.repr().is_zero() || x.repr().sign() == dashu_base::Sign::Negative;
            let e = if x.repr().is_infinite() || x.precision() == 0 || nonpos { if x.precision() == 0 && x.repr().is_one() { Exp::May } else { Exp::Must } } else { Exp::Never };
            judge(e, fuel, "ln", || format!("{:?}", x.ln().repr()))
        }
        7 => judge(must(x.repr().is_infinite()), fuel, "to_int", || format!("{:?} {:?} {:?} {:?}", x.to_int().value(), x.trunc().repr(), x.floor().repr(), x.round().repr())),
        8 => {
            judge(Exp::Never, fuel, "compare/format", || format!("{} {:?} {} {}", x, x.partial_cmp(&y), x == y, format!("{:.3}", y).len()))?;
            // the estimators are total: zero and the infinities have bounds too
            judge(Exp::Never, fuel, "log2_bounds", || format!("{:?} {:?} {:?}", x.log2_bounds(), y.repr().log2_bounds(), x.log2_est()))?;
            // comparisons are decided from signs, exponents and digit counts when the operands are far apart: the cost must
            // not grow with the exponent gap (a shift by the gap would need gigabytes), whatever the precision fields say
            let far_e = *r.pick(&[10_000isize, 1_000_000, 1_000_000_000, isize::MAX / 4, -10_000, -1_000_000_000, isize::MIN / 4]);
            let far = FBig::<Rm, B>::from_parts(IBig::from(r.range(1, 99) * if r.bool() { -1 } else { 1 }), far_e);
            let near = match r.below(4) {
                0 => FBig::<Rm, B>::ONE,
                1 => FBig::<Rm, B>::NEG_ONE,
                2 => far.clone().with_precision(0).value() >> far_e,
                _ => if x.repr().is_finite() { x.clone().with_precision(0).value() } else { FBig::<Rm, B>::ONE },
            };
            // (logical bound instead of a wall clock: both operands are a few words long, so during this probe a single
            // allocation above 1 MiB is refused; the mutated comparison then fails at once instead of running for minutes)
            CAP.store(1 << 20, Rlx);
            let res = judge(Exp::Never, fuel, "distant compare", || {
                use dashu_base::AbsOrd;
                format!("{:?} {:?} {} {:?} {:?}", near.partial_cmp(&far), far.partial_cmp(&near), near == far, near.abs_cmp(&far), far.clone().max(near.clone()).repr().exponent())
            });
            CAP.store(1 << 31, Rlx);
            res
        }
        9 => judge(Exp::Never, fuel, "to_f64", || format!("{:?} {:?}", x.to_f64().value(), y.to_f32().value())),
        10 => {
            let n = r.range(-40, 40);
            let zero_neg = x.repr().is_zero() && n < 0;
            let e = if x.repr().is_infinite() || zero_neg { Exp::Must } else if unlimited && n < 0 { Exp::May } else { Exp::Never };
            judge(e, fuel, "powi", || format!("{:?}", x.powi(IBig::from(n)).repr()))
        }
        11 => {
            let neg_base = x.repr().sign() == dashu_base::Sign::Negative && !x.repr().is_zero();
            let trivial = y.repr().is_zero() || y.repr().is_one() || x.repr().is_zero();
            // the base is checked first (assert_finite), an infinite exponent with a trivial base is answered by a shortcut
            let e = if x.repr().is_infinite() { Exp::Must } else if any_inf || ctx_unl { Exp::May } else if neg_base && !trivial { Exp::Must } else if neg_base { Exp::May } else { Exp::Never };
            if y.repr().is_finite() && x.repr().is_finite() && (y.repr().exponent() + y.repr().digits() as isize > 3 || x.repr().exponent().abs() > 60) {
                return Ok(());
            }
            judge(e, fuel, "powf", || format!("{:?}", x.powf(&y).repr()))
        }
        12 => {
            let p2 = r.usize(40);
            judge(must(x.repr().is_infinite() && false), fuel, "with_precision", || format!("{:?}", x.clone().with_precision(p2).value().repr()))
        }
        13 => {
            // base change: infinities are allowed, unlimited precision may panic when the result is inexact
            // (zero converts exactly whatever its precision)
            let e = if x.precision() == 0 && !x.repr().is_infinite() && !x.repr().is_zero() { Exp::May } else { Exp::Never };
            if x.repr().is_finite() && x.repr().exponent().abs() > 300 {
                return Ok(());
            }
            judge(e, fuel, "with_base", || if B == 2 { format!("{:?}", x.clone().with_base::<10>().value().repr()) } else { format!("{:?}", x.clone().with_base::<2>().value().repr()) })
        }
        14 => judge(must(any_inf || y.repr().is_zero()), fuel, "rem", || format!("{:?}", (&x % &y).repr())),
        _ => {
            // exponent overflow: the exponents add up beyond isize
            let big = FBig::<Rm, B>::from_parts(IBig::from(3), isize::MAX - 2);
            let res = judge(Exp::Must, fuel, "exponent overflow", || format!("{:?}", (&big * &big).repr()));
            match res {
                // without overflow checks (plain release profile) the exponent addition wraps: recorded finding
                Err(f) if f.kind == "no_panic" && !cfg!(debug_assertions) => fail_kf("no_panic", f.detail, "KF-C16-exponent-overflow-release"),
                other => other,
            }
        }
    });
}

/// Printing in every radix at every word count: the divide-and-conquer formatter builds a table of radix powers whose
/// levels depend on the word count in an irregular way, so the sweep is systematic (all-ones values, which exceed
/// every table entry of their length) instead of random.
fn fmt_sweep(m: &mut Mon, idx: u64) {
    let max_words: u64 = if m.tier == mon::Tier::Thorough { 1300 } else { 300 };
    let (radix, words) = (2 + (idx % 35) as u32, 3 + idx / 35);
    if words > max_words {
        return;
    }
    let v = UBig::ones(64 * words as usize);
    let iv = -IBig::from(v.clone());
    m.check("fmt_sweep", &format!("r{}", radix), Some(idx ^ 0xf0f0_0000), &|| format!("fmt_sweep radix={} value=2^{}-1", radix, 64 * words), || {
        judge(Exp::Never, 20_000 + 64 * 64 * words * 8, "in_radix", || {
            let t = format!("{}", v.in_radix(radix));
            let t2 = format!("{:#}", iv.in_radix(radix));
            format!("{} {}", t.len(), t2.len())
        })?;
        if radix == 10 {
            judge(Exp::Never, 20_000 + 64 * 64 * words * 8, "Display", || format!("{}", format!("{}", v).len() + format!("{:?}", iv).len()))?;
        }
        Ok(())
    });
}

fn case(m: &mut Mon, r: &mut Rng, idx: u64) {
    fmt_sweep(m, idx);
    let (mut al, mut bl) = (edge_mag(r), edge_mag(r));
    // related operands: domain edges of two-operand functions sit where one operand is next to the other, to a
    // multiple or to a power of it (ilog just above the base, exact quotients, gcd of near-equal values)
    match r.below(12) {
        0 => al = limbs_of_nat(&(nat(&bl) + num_bigint::BigUint::from(r.below(3)))),
        1 => al = limbs_of_nat(&(nat(&bl) + (nat(&bl) >> (14 + r.usize(40))) + 1u32)),
        2 => al = limbs_of_nat(&(nat(&bl) * num_bigint::BigUint::from(1 + r.below(5)) + num_bigint::BigUint::from(r.below(2)))),
        3 => {
            let sq = nat(&bl) * nat(&bl);
            al = limbs_of_nat(&if r.bool() || sq == num_bigint::BigUint::from(0u8) { sq + num_bigint::BigUint::from(r.below(2)) } else { sq - 1u32 });
        }
        // b just above a (same word count): the precondition of the unsigned subtraction fails by a little
        4 => bl = limbs_of_nat(&(nat(&al) + num_bigint::BigUint::from(r.below(3)))),
        _ => {}
    }
    let (na, nb) = (r.bool(), r.bool());
    let (ua, ub) = (ubig(&al), ubig(&bl));
    let (ia, ib) = (ibig(na, &al), ibig(nb, &bl));
    let (za, zb) = (gen::nlimbs(&al) == 0, gen::nlimbs(&bl) == 0);
    let bits = (al.len() + bl.len()) as u64 * 64;
    let fuel = 20_000 + 64 * bits;
    let h = gen::hash_limbs(gen::hash_limbs(na as u64 * 2 + nb as u64, &al), &bl);
    let desc = |op: &str| format!("{} a={}{} b={}{}", op, if na { "-" } else { "" }, gen::hex(&al), if nb { "-" } else { "" }, gen::hex(&bl));
    let sel = r.below(40);
    macro_rules! op {
        ($name:expr, $expect:expr, $body:expr) => {{
            let e: Exp = $expect;
            m.check($name, match e { Exp::Must => "must_panic", Exp::Never => "in_domain", Exp::May => "either" }, Some(h ^ dvh::rng::hash_str($name)), &|| desc($name), || judge(e, fuel, $name, || $body));
        }};
    }
    let must = |c: bool| if c { Exp::Must } else { Exp::Never };
    match sel {
        0 => {
            // every ownership form and the in-place forms have their own implementation arm
            let form = r.below(6);
            op!("ubig_sub", must(nat(&al) < nat(&bl)), match form {
                0 => format!("{}", &ua - &ub),
                1 => format!("{}", ua.clone() - &ub),
                2 => format!("{}", &ua - ub.clone()),
                3 => format!("{}", ua.clone() - ub.clone()),
                4 => {
                    let mut t = ua.clone();
                    t -= &ub;
                    format!("{}", t)
                }
                _ => {
                    let mut t = ua.clone();
                    t -= ub.clone();
                    format!("{}", t)
                }
            })
        }
        1 => {
            let p = r.word();
            op!("ubig_sub_prim", must(nat(&al) < num_bigint::BigUint::from(p)), format!("{}", &ua - p))
        }
        2 => op!("ubig_div", must(zb), format!("{}", &ua / &ub)),
        3 => op!("ibig_rem", must(zb), format!("{}", &ia % &ib)),
        4 => op!("ibig_div_rem", must(zb), format!("{:?}", (&ia).div_rem(&ib))),
        5 => op!("ibig_div_euclid", must(zb), format!("{} {}", (&ia).div_euclid(&ib), (&ia).rem_euclid(&ib))),
        6 => op!("gcd", must(za && zb), format!("{}", (&ia).gcd(&ib))),
        7 => op!("gcd_ext", must(za && zb), format!("{:?}", (&ua).gcd_ext(&ub))),
        8 => {
            let n = r.usize(5);
            op!("nth_root", must(n == 0 || (na && !za && n % 2 == 0)), format!("{}", ia.nth_root(n)))
        }
        9 => op!("sqrt", must(na && !za), format!("{}", ia.sqrt())),
        10 => {
            let base_bad = gen::nlimbs(&bl) == 0 || nat(&bl) == num_bigint::BigUint::from(1u8);
            op!("ilog", must(za || base_bad), format!("{}", ia.ilog(&ub)))
        }
        11 => {
            let radix = *r.pick(&[0u32, 1, 2, 10, 36, 37, 100, u32::MAX]);
            op!("in_radix", must(!(2..=36).contains(&radix)), format!("{}", ia.in_radix(radix)))
        }
        12 => {
            let radix = *r.pick(&[0u32, 1, 2, 10, 36, 37, u32::MAX]);
            let s = edge_str(r);
            m.check("int_parse", "", Some(dvh::rng::hash_str(&s) ^ radix as u64), &|| format!("int_parse radix={} text={:?}", radix, s), || {
                judge(Exp::Never, fuel, "from_str_radix", || format!("{:?} {:?} {:?} {:?}", UBig::from_str_radix(&s, radix).is_ok(), IBig::from_str_radix(&s, radix).is_ok(), IBig::from_str_with_radix_prefix(&s).is_ok(), UBig::from_str(&s).is_ok()))
            });
        }
        13 => {
            let cb = r.usize(4) * r.usize(70);
            op!("chunks", must(cb == 0), format!("{}", UBig::from_chunks(ua.to_chunks(cb).iter(), cb)))
        }
        14 => {
            // large but affordable shift counts / bit positions
            let s = match r.below(4) {
                0 => 0,
                1 => 1 << r.below(22),
                _ => r.usize(1 << 16),
            };
            op!("shift_bits", Exp::Never, {
                let x = (&ia << s) >> s;
                let mut u = ua.clone();
                u.set_bit(s);
                u.clear_bit(s);
                u.clear_high_bits(s);
                format!("{} {} {:?}", x == ia, u.bit_len(), ua.clone().split_bits(s).0.bit_len())
            })
        }
        15 => {
            let e = r.usize(200);
            op!("pow", Exp::Never, format!("{}", (ib.clone() % IBig::from(1000) ).pow(e).bit_len()))
        }
        16 => op!("const_divisor", must(zb), format!("{}", &ia % &ConstDivisor::new(ub.clone()))),
        17 => {
            // modular: mixing rings panics, division by non-invertible panics, inverse returns None
            let ml = { let mut v = edge_mag(r); if gen::nlimbs(&v) == 0 { v = vec![6]; } v };
            let which = r.below(3);
            m.check("modular", &format!("w{}", which), Some(h ^ which), &|| format!("{} m={} which={}", desc("modular"), gen::hex(&ml), which), || {
                let (r1, r2) = (ConstDivisor::new(ubig(&ml)), ConstDivisor::new(ubig(&ml)));
                let (x, y, y2) = (r1.reduce(ia.clone()), r1.reduce(ib.clone()), r2.reduce(ib.clone()));
                match which {
                    0 => judge(Exp::Must, fuel, "different rings", || format!("{}", (&x + &y2).residue())),
                    1 => judge(Exp::Never, fuel, "inv", || format!("{:?}", y.inv().map(|v| v.residue()))),
                    _ => {
                        let invertible = y.inv().is_some();
                        judge(must(!invertible), fuel, "modular division", || format!("{}", (&x / &y).residue()))
                    }
                }
            });
        }
        18 => {
            // primitive-result forms: the mathematically correct result may not fit the primitive type
            let p = r.word();
            m.check("prim_result", "", Some(h ^ p), &|| format!("{} p={:#x}", desc("prim_result"), p), || {
                let q = (p as u8).max(1);
                let res = catch(|| format!("{}", &ia % q));
                let rem_fits = !na || (int(na, &al) % num_bigint::BigInt::from(q)) == num_bigint::BigInt::from(0);
                match res {
                    Ok(_) => Ok(()),
                    Err(msg) if !rem_fits => fail_kf("undocumented_panic", format!("IBig % u8 with a negative remainder: {}", msg), "KF-C16-prim-result-unwrap"),
                    Err(msg) => fail("undocumented_panic", format!("IBig % u8 panicked although the remainder fits: {}", msg)),
                }?;
                judge(Exp::Never, fuel, "ubig % u16", || format!("{}", &ua % (p as u16).max(1)))?;
                judge(Exp::Never, fuel, "ibig / i64", || format!("{}", &ia / ((p as i64) | 1)))
            });
        }
        19 => {
            // conversions never panic
            let f = match r.below(6) {
                0 => f64::NAN,
                1 => f64::INFINITY,
                2 => -0.0,
                3 => f64::MIN_POSITIVE / 4.0,
                _ => f64::from_bits(r.u64()),
            };
            m.check("conversions", "", Some(f.to_bits()), &|| format!("conversions f={:e} {}", f, desc("")), || {
                judge(Exp::Never, fuel, "float -> big", || format!("{:?} {:?} {:?} {:?}", UBig::try_from(f).is_ok(), IBig::try_from(f as f32).is_ok(), RBig::try_from(f).is_ok(), F2::try_from(f).is_ok()))?;
                judge(Exp::Never, fuel, "big -> prim", || format!("{:?} {:?} {:?} {:?} {:?}", u8::try_from(&ua).is_ok(), i128::try_from(&ia).is_ok(), f32::try_from(ia.clone()).is_ok(), ia.to_f64().value(), ua.to_f32().value()))?;
                if !zb {
                    let q = RBig::from_parts(ia.clone(), ub.clone());
                    judge(Exp::Never, fuel, "ratio -> *", || format!("{:?} {:?} {:?} {:?} {}", q.to_f64().value(), q.to_f32_fast(), f64::try_from(q.clone()).is_ok(), IBig::try_from(q.clone()).is_ok(), q.to_float::<mode::HalfEven, 10>(7).value()))?;
                }
                Ok(())
            });
        }
        20..=27 => {
            // floats: infinities must panic in arithmetic, unlimited precision, domains. Four instantiations: the
            // transcendental functions take different paths for base 2, base 10, other even bases and odd bases
            match r.below(6) {
                0 | 1 => float_surface::<mode::HalfAway, 10>(m, r, sel),
                2 | 3 => float_surface::<mode::Zero, 2>(m, r, sel),
                4 => float_surface::<mode::HalfEven, 3>(m, r, sel),
                _ => float_surface::<mode::Up, 16>(m, r, sel),
            }
        }
        28 | 29 => {
            let s = edge_str(r);
            m.check("float_parse", "", Some(dvh::rng::hash_str(&s)), &|| format!("float_parse text={:?}", s), || {
                judge(Exp::Never, fuel, "float from_str", || format!("{:?} {:?} {:?} {:?}", F2::from_str(&s).is_ok(), F10::from_str(&s).is_ok(), FBig::<mode::Zero, 16>::from_str(&s).is_ok(), FBig::<mode::Zero, 36>::from_str(&s).is_ok()))?;
                judge(Exp::Never, fuel, "ratio from_str", || format!("{:?} {:?} {:?}", RBig::from_str(&s).is_ok(), Relaxed::from_str(&s).is_ok(), RBig::from_str_with_radix_prefix(&s).is_ok()))?;
                for radix in [0u32, 1, 2, 16, 36, 37] {
                    let res = catch(|| RBig::from_str_radix(&s, radix).is_ok());
                    if res.is_err() && (2..=36).contains(&radix) {
                        return fail("undocumented_panic", format!("RBig::from_str_radix({:?}, {}) panicked: {:?}", s, radix, res));
                    }
                }
                Ok(())
            });
        }
        30..=34 => {
            // rationals
            let which = sel - 30 + 5 * r.below(2);
            let limit_l = match r.below(4) {
                0 => vec![],
                1 => vec![r.below(50)],
                2 => vec![r.u64() >> r.below(40)],
                _ => vec![r.u64(), r.below(4)],
            };
            let lim = ubig(&limit_l);
            let d = || format!("ratio op#{} {} limit={}", which, desc(""), gen::hex(&limit_l));
            m.check("ratio", &format!("op{}", which), Some(h ^ which ^ gen::hash_limbs(5, &limit_l)), &d, || {
                if which == 0 {
                    return judge(must(zb), fuel, "from_parts", || format!("{}", RBig::from_parts(ia.clone(), ub.clone())));
                }
                let q = RBig::from_parts(ia.clone(), ub.clone() + UBig::ONE);
                let q2 = RBig::from_parts(ib.clone(), ua.clone() + UBig::ONE);
                let lz = gen::nlimbs(&limit_l) == 0;
                let lfuel = 50_000 + 64 * (bits + 128);
                match which {
                    1 => judge(must(q2.is_zero()), fuel, "div", || format!("{}", &q / &q2)),
                    2 => judge(must(q.is_zero()), fuel, "inv", || format!("{}", q.clone().inv())),
                    3 => judge(must(q2.is_zero()), fuel, "rem", || format!("{} {}", &q % &q2, (&q).rem_euclid(&q2))),
                    4 => judge(must(lz), lfuel, "next_up", || format!("{}", q.next_up(&lim))),
                    5 => judge(must(lz), lfuel, "next_down", || format!("{}", q.next_down(&lim))),
                    6 => judge(must(lz), lfuel, "nearest", || format!("{:?}", q.nearest(&lim).map(|v| v.to_string()))),
                    7 => judge(Exp::Never, lfuel, "simplest_in", || format!("{}", RBig::simplest_in(q.clone(), q2.clone()))),
                    8 => judge(Exp::Never, fuel, "round", || format!("{} {} {} {} {}", q.trunc(), q.floor(), q.ceil(), q.round(), q.fract())),
                    _ => judge(Exp::Never, fuel, "pow", || format!("{}", q.pow(r.usize(6)).is_zero())),
                }
            });
        }
        35 => {
            // in-place growth that uses up the spare capacity of the buffer, then an addition that carries out of the top
            // word, in every ownership form: no form may panic, whatever state the earlier steps left behind
            let steps = 1 + r.usize(6);
            let plan: Vec<(u64, usize, u64)> = (0..steps).map(|_| (r.below(3), 1 + r.usize(70), r.word() | 1)).collect();
            let form = r.below(5);
            op!("inplace_growth", Exp::Never, {
                let mut x = ua.clone() + UBig::ONE;
                for (what, sh, w) in &plan {
                    match what {
                        0 => x <<= *sh,
                        1 => x *= *w,
                        _ => x += &ub,
                    }
                }
                let top = UBig::ONE << x.bit_len();
                let comp = &top - &x;
                let sum = match form {
                    0 => x + comp,
                    1 => x + &comp,
                    2 => &comp + x,
                    3 => {
                        x += &comp;
                        x
                    }
                    _ => IBig::from(x).add(IBig::from(comp)).try_into().unwrap(),
                };
                format!("{}", sum == top)
            })
        }
        _ => {
            // Relaxed mirrors
            op!("relaxed_from_parts", must(zb), format!("{}", Relaxed::from_parts(ia.clone(), ub.clone())))
        }
    }
    let _ = (Context::<mode::Zero>::new(1), Repr::<2>::zero());
}

fn main() {
    mon::main(Spec {
        prop: "C16",
        quick_cases: 400_000,
        thorough_cases: 12_000_000,
        rule: "About 60 operation classes over the public surface (integer arithmetic and number theory, radix I/O, chunks, shifts and bit edits with counts up to 2^22, modular rings, primitive-result forms, conversions, float arithmetic / elementary functions / rounding / base change on 0, +-1, +-infinity, precision 0 and 1, huge exponents, exponent overflow, float / rational / integer parsers on empty, non-ASCII, control-character and marker-only strings, rational constructors, inverse, Farey functions with limits from 0 to 2^66) each with a precondition oracle (Must panic / Never panic / either). Logical fuel of 20000 + 64 * input bits iterations bounds every numerically terminated loop; an allocation request above 2 GiB is refused. non-trivial = every case; distinct = (operation, operands).",
        assumptions: &["fuel bound per call: 20000 + 64 * (input bits) iterations for integer/rational operations, 200000 + 4000 * precision for float operations (cumulative over all hooked loops reached by the call)", "a panic whose message is any text is accepted where a panic is documented (message classes are not compared)", "arithmetic overflow of the float exponent counts as the documented 'exponent overflow' panic"],
        required: &[("ubig_sub/must_panic", false), ("ubig_sub/in_domain", false), ("float/", false), ("ratio/", false), ("int_parse", false), ("float_parse", false), ("modular/", false), ("conversions", false)],
        case,
        selftest: None,
        panic_finding: None,
    });
}
