//! C07 — integer text and byte encodings: digits, parse round trip, rejection, formatter layout, bytes, chunks.
use dashu_int::{IBig, UBig};
use dvh::conv::*;
use dvh::fmtspecs::{FmtSpec, DISPLAY_SPECS, SPECS};
use dvh::gen;
use dvh::mon::{self, catch, fail, Mon, Spec, R};
use dvh::rng::Rng;
use dvh::sites::Snap;
use dvh::{ensure, fmt_all, fmt_display, layout};
use num_bigint::{BigInt, BigUint, Sign as NSign};
use num_traits::{One, Signed, Zero};
use std::str::FromStr;

fn max_limbs(m: &Mon, r: &mut Rng) -> usize {
    if m.thorough() {
        match r.below(200) {
            0 => 3_000,
            1..=10 => 600,
            11..=60 => 60,
            _ => 20,
        }
    } else {
        match r.below(200) {
            0..=1 => 600,
            2..=20 => 60,
            _ => 20,
        }
    }
}

fn value(m: &Mon, r: &mut Rng, radix: u32) -> BigUint {
    let mx = max_limbs(m, r);
    if r.chance(1, 1500) {
        // a few very long values per run: the parser multiplies a radix power of 2048 * 2^j words by a leading block
        // of a few words, the printer divides by such powers (chunked schoolbook multiplication, unbalanced division)
        let n = 2048 * (1usize << r.usize(2)) + r.usize(40);
        return nat(&gen::shape(r, n));
    }
    if r.chance(1, 12) {
        // any word count inside the divide-and-conquer range of the printer and the parser: their tables of
        // radix powers gain a level at irregular lengths (63, 125, 127, 249, 253, ... words depending on
        // the radix), which boundary lists derived from the documented thresholds do not contain
        let n = 17 + r.usize(if m.thorough() { 1500 } else { 504 });
        return nat(&gen::shape(r, n));
    }
    match r.below(8) {
        0 => {
            // radix^k, radix^k - 1 (all-max digits), radix^k + 1
            let k = r.usize((mx * 64 * 100 / ((radix as f64).log2() * 100.0) as usize).max(1) + 1);
            let p = num_traits::Pow::pow(&BigUint::from(radix), k);
            match r.below(3) {
                0 => p,
                1 => p - 1u32,
                _ => p + 1u32,
            }
        }
        1 => {
            // lengths around the printer's 16-word and parser's 256-word chunk boundaries
            let n = *r.pick(&[15usize, 16, 17, 18, 31, 32, 33, 255, 256, 257, 258]);
            nat(&gen::shape(r, n.min(mx.max(20))))
        }
        2 => nat(&gen::small_mag(r)),
        _ => nat(&gen::mag(r, mx)),
    }
}

/// reference layout of Rust's integer formatting (Formatter::pad_integral)
fn ref_layout(neg: bool, digits_lower: &str, s: &FmtSpec, width: usize, in_radix: bool) -> String {
    let digits = if s.tr == 'X' || (in_radix && s.alt) { digits_lower.to_uppercase() } else { digits_lower.to_string() };
    let prefix = if s.alt && !in_radix {
        match s.tr {
            'x' | 'X' => "0x",
            'b' => "0b",
            'o' => "0o",
            _ => "",
        }
    } else {
        ""
    };
    let sign = if neg {
        "-"
    } else if s.plus {
        "+"
    } else {
        ""
    };
    let body_len = sign.len() + prefix.len() + digits.chars().count();
    if !s.has_width || body_len >= width {
        return format!("{}{}{}", sign, prefix, digits);
    }
    let pad = width - body_len;
    if s.zero {
        return format!("{}{}{}{}", sign, prefix, "0".repeat(pad), digits);
    }
    let (l, rr) = match s.align {
        '<' => (0, pad),
        '^' => (pad / 2, pad - pad / 2),
        _ => (pad, 0),
    };
    let fill: String = std::iter::repeat(s.fill).take(l).collect();
    let fill_r: String = std::iter::repeat(s.fill).take(rr).collect();
    format!("{}{}{}{}{}", fill, sign, prefix, digits, fill_r)
}

fn spec_radix(s: &FmtSpec) -> u32 {
    match s.tr {
        'x' | 'X' => 16,
        'b' => 2,
        'o' => 8,
        _ => 10,
    }
}

/// decorate a plain lowercase digit string into another sentence of the strict grammar
fn decorate(r: &mut Rng, digits: &str, allow_underscore: bool) -> String {
    let mut out = String::new();
    let chars: Vec<char> = digits.chars().collect();
    for (i, c) in chars.iter().enumerate() {
        let c = if r.chance(1, 3) { c.to_ascii_uppercase() } else { *c };
        out.push(c);
        if allow_underscore && i + 1 < chars.len() && r.chance(1, 6) {
            out.push('_');
        }
    }
    // leading zeros are allowed
    if r.chance(1, 8) {
        out = format!("{}{}", "0".repeat(1 + r.usize(3)), out);
    }
    out
}

fn parse_all_u(s: &str, radix: u32, want: &BigUint) -> R {
    match UBig::from_str_radix(s, radix) {
        Ok(v) => {
            layout::check_u(&v).or_else(|e| fail("layout", e))?;
            ensure!(nat_of(&v) == *want, "parse_value", "UBig::from_str_radix({:?}, {}) = {}", mon::truncate(s, 80), radix, show_u(&v));
        }
        Err(e) => return fail("parse_rejected", format!("UBig::from_str_radix({:?}, {}) = Err({:?})", mon::truncate(s, 80), radix, e)),
    }
    Ok(())
}

fn case(m: &mut Mon, r: &mut Rng, _idx: u64) {
    let radix = match r.below(4) {
        0 => *r.pick(&[2u32, 8, 10, 16]),
        1 => *r.pick(&[3u32, 7, 36, 35, 32, 4]),
        _ => 2 + r.below(35) as u32,
    };
    match r.below(14) {
        0 | 1 | 2 => {
            // print digits + parse round trip
            let x = value(m, r, radix);
            let neg = r.bool();
            let xl = limbs_of_nat(&x);
            let (u, i) = (ubig(&xl), ibig(neg, &xl));
            let want = x.to_str_radix(radix);
            let h = gen::hash_limbs(radix as u64 * 2 + neg as u64, &xl);
            let snap = Snap::take();
            let printed = catch(|| format!("{}", u.in_radix(radix)));
            let strat = snap.delta("FMT_");
            let cell = format!("r{}/{}/{}", if radix.is_power_of_two() { "pow2" } else { "other" }, gen::size_class(xl.len()), strat);
            let d = || format!("print_parse radix={} x={}{}", radix, if neg { "-" } else { "" }, gen::hex(&xl));
            let deco = decorate(r, &want, true);
            let deco_sign = match r.below(3) {
                0 => format!("+{}", deco),
                _ => deco.clone(),
            };
            m.check("print_parse", &cell, if xl.len() >= 1 { Some(h) } else { None }, &d, || {
                let printed = printed.or_else(|p| fail("unexpected_panic", p))?;
                ensure!(printed == want, "digits", "in_radix({}) printed {} want {}", radix, mon::truncate(&printed, 100), mon::truncate(&want, 100));
                let up = format!("{:#}", u.in_radix(radix));
                ensure!(up == want.to_uppercase(), "digits", "{{:#}} in_radix({}) printed {}", radix, mon::truncate(&up, 100));
                let pi = format!("{}", i.in_radix(radix));
                let want_i = if neg && !x.is_zero() { format!("-{}", want) } else { want.clone() };
                ensure!(pi == want_i, "digits", "ibig in_radix({}) printed {} want {}", radix, mon::truncate(&pi, 100), mon::truncate(&want_i, 100));
                match radix {
                    10 => {
                        ensure!(u.to_string() == want, "digits", "Display != model");
                        ensure!(i.to_string() == want_i, "digits", "ibig Display != model");
                        ensure!(UBig::from_str(&want).ok().map(|v| nat_of(&v)) == Some(x.clone()), "parse_value", "FromStr round trip");
                        ensure!(IBig::from_str(&want_i).ok().map(|v| int_of(&v)) == Some(int(neg, &xl)), "parse_value", "ibig FromStr round trip");
                    }
                    16 => {
                        ensure!(format!("{:x}", u) == want, "digits", "LowerHex != model");
                        ensure!(format!("{:X}", u) == want.to_uppercase(), "digits", "UpperHex != model");
                        ensure!(format!("{:x}", i) == want_i, "digits", "ibig LowerHex != model");
                    }
                    8 => ensure!(format!("{:o}", u) == want && format!("{:o}", i) == want_i, "digits", "Octal != model"),
                    2 => ensure!(format!("{:b}", u) == want && format!("{:b}", i) == want_i, "digits", "Binary != model"),
                    _ => {}
                }
                // parse back: plain, decorated, signed, prefixed
                parse_all_u(&printed, radix, &x)?;
                parse_all_u(&deco_sign, radix, &x)?;
                let si = if neg { format!("-{}", deco) } else { deco_sign.clone() };
                match IBig::from_str_radix(&si, radix) {
                    Ok(v) => {
                        layout::check_i(&v).or_else(|e| fail("layout", e))?;
                        ensure!(int_of(&v) == int(neg, &xl), "parse_value", "IBig::from_str_radix({:?}) = {}", mon::truncate(&si, 80), show_i(&v))
                    }
                    Err(e) => return fail("parse_rejected", format!("IBig::from_str_radix({:?}, {}) = Err({:?})", mon::truncate(&si, 80), radix, e)),
                }
                let pre = match radix {
                    2 => Some("0b"),
                    8 => Some("0o"),
                    16 => Some("0x"),
                    _ => None,
                };
                if let Some(p) = pre {
                    let s = format!("{}{}{}", if neg { "-" } else { "" }, p, deco);
                    match IBig::from_str_with_radix_prefix(&s) {
                        Ok((v, rd)) => ensure!(int_of(&v) == int(neg, &xl) && rd == radix, "parse_value", "from_str_with_radix_prefix({:?}) = ({}, {})", mon::truncate(&s, 80), show_i(&v), rd),
                        Err(e) => return fail("parse_rejected", format!("from_str_with_radix_prefix({:?}) = Err({:?})", mon::truncate(&s, 80), e)),
                    }
                    let s = format!("{}{}", p, deco);
                    match UBig::from_str_with_radix_prefix(&s) {
                        Ok((v, rd)) => ensure!(nat_of(&v) == x && rd == radix, "parse_value", "ubig from_str_with_radix_prefix({:?})", mon::truncate(&s, 80)),
                        Err(e) => return fail("parse_rejected", format!("ubig from_str_with_radix_prefix({:?}) = Err({:?})", mon::truncate(&s, 80), e)),
                    }
                } else if radix == 10 {
                    match UBig::from_str_with_radix_prefix(&deco) {
                        Ok((v, rd)) => ensure!(nat_of(&v) == x && rd == 10, "parse_value", "from_str_with_radix_prefix (no prefix)"),
                        Err(e) => return fail("parse_rejected", format!("from_str_with_radix_prefix({:?}) = Err({:?})", mon::truncate(&deco, 80), e)),
                    }
                }
                Ok(())
            });
        }
        3 | 4 => {
            // malformed text must be rejected
            let x = value(m, r, radix);
            let good = x.to_str_radix(radix);
            let kind = r.below(10);
            let mut chars: Vec<char> = good.chars().collect();
            let pos = r.usize(chars.len() + 1);
            let bad: String = match kind {
                0 => String::new(),
                1 => "+".to_string(),
                2 => "-".to_string(),
                3 => {
                    // a digit that is not below the radix
                    let dch = std::char::from_digit(radix.min(35) + if radix < 36 { 0 } else { 0 }, 36).unwrap();
                    if radix == 36 {
                        chars.insert(pos, '@');
                    } else {
                        chars.insert(pos, dch);
                    }
                    chars.iter().collect()
                }
                4 => {
                    chars.insert(pos, *r.pick(&[' ', '\t', '\n', '.', ',', '/', ':', '`', '{', '~', '\0']));
                    chars.iter().collect()
                }
                5 => {
                    // interior / trailing sign
                    chars.insert(pos.max(1), *r.pick(&['+', '-']));
                    chars.iter().collect()
                }
                6 => {
                    chars.insert(pos, *r.pick(&['é', '٣', '１', '𝟙', 'ß', '\u{200b}']));
                    chars.iter().collect()
                }
                7 => format!("++{}", good),
                8 => format!("-+{}", good),
                _ => format!(" {}", good),
            };
            let d = || format!("reject radix={} text={:?} kind={}", radix, mon::truncate(&bad, 120), kind);
            let h = dvh::rng::hash_str(&bad) ^ radix as u64;
            m.check("reject", &format!("k{}", kind), Some(h), &d, || {
                let ru = catch(|| UBig::from_str_radix(&bad, radix)).or_else(|p| fail("parser_panic", p))?;
                let ri = catch(|| IBig::from_str_radix(&bad, radix)).or_else(|p| fail("parser_panic", p))?;
                let rp = catch(|| IBig::from_str_with_radix_prefix(&bad)).or_else(|p| fail("parser_panic", p))?;
                if let Ok(v) = ru {
                    return fail("accepted_invalid", format!("UBig::from_str_radix accepted, value {}", show_u(&v)));
                }
                if let Ok(v) = ri {
                    return fail("accepted_invalid", format!("IBig::from_str_radix accepted, value {}", show_i(&v)));
                }
                if radix == 10 {
                    if let Ok((v, _)) = rp {
                        return fail("accepted_invalid", format!("IBig::from_str_with_radix_prefix accepted, value {}", show_i(&v)));
                    }
                }
                Ok(())
            });
        }
        5 => {
            // arbitrary strings: no panic; if accepted, the value must be what the digits present say
            let len = r.usize(40);
            let alphabet: &[char] = &['0', '1', '9', 'a', 'f', 'z', 'Z', 'A', '_', '+', '-', ' ', 'x', 'b', 'o', 'é', '.', '7'];
            let s: String = (0..len).map(|_| *r.pick(alphabet)).collect();
            let d = || format!("arbitrary radix={} text={:?}", radix, s);
            m.check("arbitrary", "", Some(dvh::rng::hash_str(&s) ^ radix as u64), &d, || {
                let ru = catch(|| UBig::from_str_radix(&s, radix)).or_else(|p| fail("parser_panic", p))?;
                let ri = catch(|| IBig::from_str_radix(&s, radix)).or_else(|p| fail("parser_panic", p))?;
                let _ = catch(|| IBig::from_str_with_radix_prefix(&s)).or_else(|p| fail("parser_panic", p))?;
                let _ = catch(|| UBig::from_str_with_radix_prefix(&s)).or_else(|p| fail("parser_panic", p))?;
                // model: optional sign, then digits/underscores only
                let (neg, body) = match s.strip_prefix('-') {
                    Some(b) => (true, b),
                    None => (false, s.strip_prefix('+').unwrap_or(&s)),
                };
                let digits: String = body.chars().filter(|c| *c != '_').collect();
                if digits.is_empty() && !body.is_empty() {
                    // underscore-only text is outside the documented grammar (grey zone): no-panic only
                    return Ok(());
                }
                let all_valid = !digits.is_empty() && digits.chars().all(|c| c.to_digit(36).map_or(false, |d| d < radix));
                if let Ok(v) = &ri {
                    ensure!(all_valid, "accepted_invalid", "IBig accepted {:?} in radix {} as {}", s, radix, show_i(v));
                    let want = BigInt::parse_bytes(digits.as_bytes(), radix).unwrap();
                    let want = if neg { -want } else { want };
                    ensure!(int_of(v) == want, "parse_value", "IBig parsed {:?} as {}", s, show_i(v));
                }
                if let Ok(v) = &ru {
                    ensure!(all_valid && !neg, "accepted_invalid", "UBig accepted {:?} in radix {} as {}", s, radix, show_u(v));
                    let want = BigUint::parse_bytes(digits.as_bytes(), radix).unwrap();
                    ensure!(nat_of(v) == want, "parse_value", "UBig parsed {:?} as {}", s, show_u(v));
                }
                // strict sentences (digits separated by single underscores) must be accepted
                let strict = all_valid && !body.starts_with('_') && !body.ends_with('_') && !body.contains("__");
                if strict {
                    ensure!(ri.is_ok(), "parse_rejected", "IBig rejected the valid text {:?} in radix {}", s, radix);
                    ensure!(neg || ru.is_ok(), "parse_rejected", "UBig rejected the valid text {:?} in radix {}", s, radix);
                }
                Ok(())
            });
        }
        6 | 7 | 8 => {
            // formatter layout
            let si = r.usize(SPECS.len());
            let s = SPECS[si];
            // every 8th value is long (up to 150 limbs, thorough 700: all three printers — one word, <= 16 words,
            // recursive above — and several levels of the recursive one) and then usually gets a width just above
            // its own length, so that the padding arithmetic of the long printers is exercised too
            let big = r.chance(1, 8);
            let x = match r.below(4) {
                _ if big => {
                    let n = match r.below(4) {
                        0 => 3 + r.usize(16),
                        1 => 60 + r.usize(12),
                        2 => 120 + r.usize(20),
                        _ => 3 + r.usize(if m.thorough() { 700 } else { 150 }),
                    };
                    nat(&gen::shape(r, n))
                }
                0 => BigUint::zero(),
                1 => BigUint::from(r.word()),
                _ => nat(&gen::small_mag(r)),
            };
            let neg = r.bool() && !x.is_zero();
            let xl = limbs_of_nat(&x);
            let (u, i) = (ubig(&xl), ibig(neg, &xl));
            let rd = spec_radix(&s);
            let digits = x.to_str_radix(rd);
            let w = match r.below(5) {
                _ if big && r.chance(3, 4) => digits.len() + r.usize(60),
                0 => 0,
                1 => r.usize(6),
                _ => r.usize(81),
            };
            let d = || format!("layout spec={:?} width={} x={}{}", s.text, w, if neg { "-" } else { "" }, gen::hex(&xl));
            let h = gen::hash_limbs((si as u64) << 8 | w as u64, &xl) ^ neg as u64;
            m.check("layout", &format!("{}", s.text), Some(h), &d, || {
                let got_u = fmt_all!(si, u, w);
                let want_u = ref_layout(false, &digits, &s, w, false);
                ensure!(got_u == want_u, "layout", "UBig {:?} width {}: got {:?} want {:?}", s.text, w, got_u, want_u);
                let got_i = fmt_all!(si, i, w);
                let want_i = ref_layout(neg, &digits, &s, w, false);
                ensure!(got_i == want_i, "layout", "IBig {:?} width {}: got {:?} want {:?}", s.text, w, got_i, want_i);
                if s.tr == 'd' {
                    let rdx = 2 + r.below(35) as u32;
                    let dg = x.to_str_radix(rdx);
                    let got = fmt_display!(si, i.in_radix(rdx), w);
                    let want = ref_layout(neg, &dg, &s, w, true);
                    ensure!(got == want, "layout", "InRadix({}) {:?} width {}: got {:?} want {:?}", rdx, s.text, w, got, want);
                }
                Ok(())
            });
        }
        9 | 10 => {
            // bytes
            let mx = max_limbs(m, r).min(100);
            let x = match r.below(6) {
                0 => {
                    // +-2^(8k), +-2^(8k-1), +-(2^(8k-1) +- 1)
                    let k = 1 + r.usize(mx * 8);
                    let p = BigUint::one() << (8 * k - r.usize(2));
                    match r.below(3) {
                        0 => p,
                        1 => p - 1u32,
                        _ => p + 1u32,
                    }
                }
                1 => nat(&gen::small_mag(r)),
                _ => nat(&gen::mag(r, mx)),
            };
            let neg = r.bool();
            let xl = limbs_of_nat(&x);
            let (u, i) = (ubig(&xl), ibig(neg, &xl));
            let mi = int(neg, &xl);
            let extra = r.usize(4);
            let d = || format!("bytes x={}{}", if neg { "-" } else { "" }, gen::hex(&xl));
            m.check("bytes", gen::size_class(xl.len()), if xl.len() > 0 { Some(gen::hash_limbs(neg as u64, &xl)) } else { None }, &d, || {
                let le = u.to_le_bytes();
                let be = u.to_be_bytes();
                ensure!(BigUint::from_bytes_le(&le) == x, "bytes_value", "ubig.to_le_bytes decodes to another value");
                ensure!(BigUint::from_bytes_be(&be) == x, "bytes_value", "ubig.to_be_bytes decodes to another value");
                ensure!(le.last().map_or(true, |b| *b != 0), "bytes_value", "ubig.to_le_bytes has a trailing zero byte");
                ensure!(nat_of(&UBig::from_le_bytes(&le)) == x && nat_of(&UBig::from_be_bytes(&be)) == x, "roundtrip", "ubig bytes round trip");
                // padded input
                let mut padded = le.to_vec();
                padded.extend(std::iter::repeat(0u8).take(extra));
                let back = UBig::from_le_bytes(&padded);
                layout::check_u(&back).or_else(|e| fail("layout", e))?;
                ensure!(nat_of(&back) == x, "roundtrip", "ubig from_le_bytes with zero padding");
                // signed
                let sle = i.to_le_bytes();
                let sbe = i.to_be_bytes();
                let dec = |b: &[u8]| if b.is_empty() { BigInt::zero() } else { BigInt::from_signed_bytes_le(b) };
                ensure!(dec(&sle) == mi, "bytes_value", "ibig.to_le_bytes = {:02x?} decodes to {} (two's complement)", &sle[..sle.len().min(40)], show_int(&dec(&sle)));
                let mut rev = sbe.to_vec();
                rev.reverse();
                ensure!(rev == sle.to_vec(), "bytes_value", "ibig.to_be_bytes is not the reverse of to_le_bytes");
                let back = IBig::from_le_bytes(&sle);
                layout::check_i(&back).or_else(|e| fail("layout", e))?;
                ensure!(int_of(&back) == mi, "roundtrip", "ibig le bytes round trip: {:02x?} -> {}", &sle[..sle.len().min(40)], show_i(&back));
                ensure!(int_of(&IBig::from_be_bytes(&sbe)) == mi, "roundtrip", "ibig be bytes round trip");
                // sign-extended input
                let mut ext = sle.to_vec();
                let fillb = if mi.is_negative() { 0xffu8 } else { 0 };
                ext.extend(std::iter::repeat(fillb).take(extra));
                if !(ext.is_empty()) {
                    ensure!(int_of(&IBig::from_le_bytes(&ext)) == dec(&ext), "bytes_value", "ibig from_le_bytes of sign-extended input");
                }
                // arbitrary bytes decode like the model
                let raw: Vec<u8> = xl.iter().flat_map(|l| l.to_le_bytes()).take(1 + extra * 5).collect();
                if !raw.is_empty() {
                    ensure!(int_of(&IBig::from_le_bytes(&raw)) == BigInt::from_signed_bytes_le(&raw), "bytes_value", "ibig from_le_bytes({:02x?})", &raw[..raw.len().min(40)]);
                    let mut rb = raw.clone();
                    rb.reverse();
                    ensure!(int_of(&IBig::from_be_bytes(&rb)) == BigInt::from_signed_bytes_le(&raw), "bytes_value", "ibig from_be_bytes");
                }
                Ok(())
            });
        }
        _ => {
            // chunks
            let mx = if m.thorough() { 80 } else { 30 };
            let x = nat(&gen::mag(r, mx));
            let xl = limbs_of_nat(&x);
            let u = ubig(&xl);
            let bits = match r.below(6) {
                0 => 1 + r.usize(8),
                1 => 64 * (1 + r.usize(4)),
                2 => 64 * (1 + r.usize(4)) - 1 + r.usize(3),
                _ => 1 + r.usize(300),
            };
            let d = || format!("chunks bits={} x={}", bits, gen::hex(&xl));
            m.check("chunks", &format!("{}/{}", gen::size_class(xl.len()), if bits % 64 == 0 { "k64" } else if bits < 64 { "<64" } else { ">64" }), if xl.len() > 0 { Some(gen::hash_limbs(bits as u64, &xl)) } else { None }, &d, || {
                let chunks = catch(|| u.to_chunks(bits)).or_else(|p| fail("unexpected_panic", format!("to_chunks({}): {}", bits, p)))?;
                let mut acc = BigUint::zero();
                let limit = BigUint::one() << bits;
                for (k, c) in chunks.iter().enumerate() {
                    layout::check_u(c).or_else(|e| fail("layout", e))?;
                    let cv = nat_of(c);
                    ensure!(cv < limit, "chunk_range", "chunk {} has more than {} bits", k, bits);
                    acc += cv << (k * bits);
                }
                ensure!(acc == x, "chunks_value", "sum of chunks != x ({} chunks)", chunks.len());
                ensure!(chunks.last().map_or(true, |c| !c.is_zero()), "chunks_value", "last chunk is zero");
                let back = catch(|| UBig::from_chunks(chunks.iter(), bits)).or_else(|p| fail("unexpected_panic", format!("from_chunks: {}", p)))?;
                layout::check_u(&back).or_else(|e| fail("layout", e))?;
                ensure!(nat_of(&back) == x, "roundtrip", "from_chunks(to_chunks(x)) != x");
                // from_chunks with oversized chunks: sum(C_i * 2^(i*bits))
                let cs: Vec<UBig> = (0..(1 + xl.len() % 5)).map(|k| ubig(&xl[k.min(xl.len())..])).collect();
                let mut want = BigUint::zero();
                for (k, c) in cs.iter().enumerate() {
                    want += nat_of(c) << (k * bits);
                }
                let got = catch(|| UBig::from_chunks(cs.iter(), bits)).or_else(|p| fail("unexpected_panic", format!("from_chunks(oversized): {}", p)))?;
                ensure!(nat_of(&got) == want, "chunks_value", "from_chunks with oversized chunks");
                Ok(())
            });
        }
    }
    let _ = NSign::Plus;
}

fn selftest() -> Result<(), String> {
    // reference layout vs Rust's primitive formatting on non-negative values (and negative decimals)
    let mut r = Rng::new(99);
    for si in 0..SPECS.len() {
        let s = SPECS[si];
        for _ in 0..30 {
            let v: u128 = match r.below(3) {
                0 => 0,
                1 => r.below(300) as u128,
                _ => ((r.u64() as u128) << 64 | r.u64() as u128) >> r.below(128),
            };
            let w = r.usize(60);
            let got = fmt_all!(si, v, w);
            let digits = BigUint::from(v).to_str_radix(spec_radix(&s));
            let want = ref_layout(false, &digits, &s, w, false);
            if got != want {
                return Err(format!("reference layout disagrees with format!({:?}, {}u128, w={}): {:?} vs {:?}", s.text, v, w, got, want));
            }
            if s.tr == 'd' {
                let vi = -((v >> 1) as i128);
                let got = fmt_all!(si, vi, w);
                let want = ref_layout(vi < 0, &BigUint::from(vi.unsigned_abs()).to_str_radix(10), &s, w, false);
                if got != want {
                    return Err(format!("reference layout disagrees with format!({:?}, {}i128, w={}): {:?} vs {:?}", s.text, vi, w, got, want));
                }
            }
        }
    }
    let _ = DISPLAY_SPECS;
    Ok(())
}

fn main() {
    mon::main(Spec {
        prop: "C07",
        quick_cases: 400_000,
        thorough_cases: 12_000_000,
        rule: "All radices 2..=36; values radix^k, radix^k +- 1, lengths around the 16-word (printer) and 256-word (parser) chunk boundaries, random up to 600 (thorough 3000) limbs; sentences of the strict grammar (sign, 0b/0o/0x prefix, underscores between digits, mixed case, leading zeros) must parse to the model value, mutated sentences (digit >= radix, interior sign, whitespace, non-ASCII, empty) must be rejected, arbitrary strings must not panic; 180 literal format specs x run-time widths 0..80 (every 8th value up to 150 / 700 limbs with a width just above its own length) compared with a pad_integral reference (itself checked against format! on u128/i128 at start-up); bytes at +-2^(8k), +-2^(8k-1), +-1 around them; chunk sizes 1..300 bits. distinct = (op, value/text hash).",
        assumptions: &["num-bigint to_str_radix/parse_bytes/from_signed_bytes_le are correct", "underscore-only or doubled/edge underscores are outside the strict grammar and only checked for no-panic and digit-consistent values"],
        required: &[("print_parse", false), ("reject", false), ("layout", false), ("bytes", false), ("chunks", false), ("arbitrary", false)],
        case,
        selftest: Some(selftest),
        panic_finding: None,
    });
}
