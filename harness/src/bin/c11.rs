//! C11 — exp, exp_m1, ln, ln_1p, powi, powf within one ulp of the true value; Exact only when exact;
//! unlimited precision refused. The true value is enclosed by the harness' own interval arithmetic.
use dashu_float::{round::mode, Context, FBig, Repr};
use dashu_int::{IBig, Word};
use dvh::conv::*;
use dvh::ival::{self, floor_log};
use dvh::mon::{self, catch, fail, Mon, Spec};
use dvh::qref::{self, digits, Flag, ModeTag};
use dvh::rng::Rng;
use num_bigint::{BigInt, BigUint};
use num_rational::BigRational;
use num_traits::{One, Pow, Signed, ToPrimitive, Zero};

type Q = BigRational;

#[derive(Clone, Copy, PartialEq, Debug)]
enum Func {
    Exp,
    ExpM1,
    Ln,
    Ln1p,
}

/// enclosure [lo, hi] of f(x) at working precision k bits; None if the oracle cannot evaluate
fn enclose(f: Func, x: &Q, k: u32) -> Option<(Q, Q)> {
    match f {
        Func::Exp => {
            let e = ival::exp_q(x, k)?;
            Some((e.lo_q(), e.hi_q()))
        }
        Func::ExpM1 => {
            // for tiny |x| the subtraction cancels: raise the working precision by the magnitude of x
            let extra = if x.abs() < Q::one() { (x.denom().bits() as i64 - x.numer().bits() as i64).max(0) as u32 } else { 0 };
            let e = ival::exp_q(x, k + extra + 8)?;
            Some((e.lo_q() - Q::one(), e.hi_q() - Q::one()))
        }
        Func::Ln => {
            // near 1 the result is tiny: |ln x| ~ |x - 1|
            let d = (x - Q::one()).abs();
            let extra = if !d.is_zero() && d < Q::one() { (d.denom().bits() as i64 - d.numer().bits() as i64).max(0) as u32 } else { 0 };
            let l = ival::ln_q(x, k + extra + 8);
            Some((l.lo_q(), l.hi_q()))
        }
        Func::Ln1p => {
            let y = x + Q::one();
            let extra = if !x.is_zero() && x.abs() < Q::one() { (x.denom().bits() as i64 - x.numer().bits() as i64).max(0) as u32 } else { 0 };
            let l = ival::ln_q(&y, k + extra + 8);
            Some((l.lo_q(), l.hi_q()))
        }
    }
}

/// Decide |r - y| < ulp_p(y) for y in [lo, hi]; Ok(true/false) or Err(()) when undecidable at this enclosure
fn within_one_ulp(r: &Q, lo: &Q, hi: &Q, base: u32, p: usize) -> Result<bool, ()> {
    if lo.is_zero() || hi.is_zero() || lo.is_negative() != hi.is_negative() {
        return Err(());
    }
    // ulp of the true value: when the enclosure straddles a power of the base use the larger candidate (weaker test)
    let (e1, e2) = (floor_log(&lo.abs(), base), floor_log(&hi.abs(), base));
    let ue = e1.max(e2) - p as i64 + 1;
    let ue_min = e1.min(e2) - p as i64 + 1;
    let ulp = pow_q(base, ue);
    let ulp_min = pow_q(base, ue_min);
    // held: r - ulp_min < lo  and  hi < r + ulp_min  => |r - y| < ulp for every y in [lo, hi]
    if &(r - &ulp_min) < lo && hi < &(r + &ulp_min) {
        return Ok(true);
    }
    // violated: the whole enclosure is at least one (larger) ulp away
    if &(r + &ulp) <= lo || &(r - &ulp) >= hi {
        return Ok(false);
    }
    Err(())
}

/// A result that misses the true value y by more than one ulp. The recorded finding KF-C11-ulp-excess
/// covers misses below two ulps, where the ulp of the binade above is used when y lies within one such
/// ulp below a power of the base (or the result itself reached that power); anything worse is a violation.
fn excess(r: &Q, y: &Q, base: u32, p: usize, what: &str) -> mon::R {
    let e = floor_log(&y.abs(), base);
    let fine = pow_q(base, e - p as i64 + 1);
    let next_pow = pow_q(base, e + 1);
    let coarse_ulp = &fine * Q::from_integer(BigInt::from(base));
    let near_top = y.abs() + &coarse_ulp >= next_pow || r.abs() >= next_pow;
    let unit = if near_top { coarse_ulp } else { fine.clone() };
    let err = (r - y).abs();
    let ratio = qref::ratio_f64(&err, &fine);
    if err < &unit * Q::from_integer(BigInt::from(2)) {
        mon::fail_kf(if near_top { "error_lt_2ulp_of_upper_binade" } else { "error_1_to_2ulp" }, format!("|r - y| ~ {:.4} ulp ({})", ratio, what), "KF-C11-ulp-excess")
    } else {
        fail("error_ge_2ulp", format!("|r - y| ~ {:.4} ulp ({})", ratio, what))
    }
}

fn arg_sig(r: &mut Rng, base: u32, nd: usize) -> BigUint {
    let lo = Pow::pow(&BigUint::from(base), nd - 1);
    let span = Pow::pow(&BigUint::from(base), nd) - &lo;
    match r.below(6) {
        0 => lo,
        1 => &lo + &span - 1u32,
        _ => &lo + nat(&(0..(span.bits() / 64 + 2)).map(|_| r.u64()).collect::<Vec<_>>()) % &span,
    }
}

fn precision(m: &Mon, r: &mut Rng) -> usize {
    match r.below(40) {
        0..=5 => 1 + r.usize(3),
        6..=15 => 4 + r.usize(14),
        16..=25 => *r.pick(&[17usize, 24, 34, 53, 64]),
        26..=33 => 20 + r.usize(80),
        34..=37 => *r.pick(&[100usize, 200]),
        38 => if m.thorough() { *r.pick(&[500usize, 1000]) } else { 200 },
        // (quick: one case in a thousand at 2200 digits, where guard digits that grow like sqrt(p) or log(p) start
        // to differ from constants; thorough: one in 320 at 3000)
        _ => if m.thorough() && r.chance(1, 8) { 3000 } else if !m.thorough() && r.chance(1, 25) { 2200 } else { 300 },
    }
}

fn run<Rm: ModeTag, const B: Word>(m: &mut Mon, r: &mut Rng) {
    let base = B as u32;
    let p = precision(m, r);
    let ctx = Context::<Rm>::new(p);
    // the Context methods take any Repr: one case in eight has an argument with more digits than the precision
    // (the bound still refers to the exact argument given)
    let overlong = r.chance(1, 8);
    let nd = match r.below(5) {
        _ if overlong => p + 1 + r.usize(30),
        0 => 1,
        1 => p,
        _ => 1 + r.usize(p.min(40)),
    };
    let s = BigInt::from(arg_sig(r, base, nd));
    let neg = r.bool();
    let lb = (base as f64).log2();
    let which = r.below(16);
    let pc = match p {
        1..=3 => "p1-3",
        4..=17 => "p4-17",
        18..=64 => "p18-64",
        65..=200 => "p65-200",
        _ => "p>200",
    };
    let cell = format!("{}/b{}/{}", Rm::M.name(), base, pc);
    // set by a case whose true value may be rational but was too expensive to write down: an Exact flag can
    // then not be judged (counted inconclusive), the ulp test through the enclosure still applies
    let exactness_unknown = std::cell::Cell::new(false);
    let judge = |m: &mut Mon, op: &str, f: Option<Func>, x: &Q, res: Result<dashu_float::round::Rounded<FBig<Rm, B>>, String>, exact_y: Option<Q>, enc: &dyn Fn(u32) -> Option<(Q, Q)>, desc: &dyn Fn() -> String, h: u64| {
        let mut incon = false;
        m.check(op, &cell, Some(h), desc, || {
            let res = res.clone().or_else(|pn| fail("unexpected_panic", pn))?;
            let flag = Flag::of(&res);
            let v = match &res {
                dashu_base::Approximation::Exact(v) => v,
                dashu_base::Approximation::Inexact(v, _) => v,
            };
            if v.repr().is_infinite() {
                return fail("infinite", "finite argument in the domain produced an infinity".to_string());
            }
            let rq = q_of_repr(v.repr());
            let rd = digits(&int_of(v.repr().significand()), base);
            if rd > p + 1 {
                return fail("too_many_digits", format!("result has {} digits at precision {}", rd, p));
            }
            if let Some(y) = &exact_y {
                // rational true value: the ordinary contract (Exact iff equal, < 1 ulp)
                if &rq == y {
                    // (the property only demands that Exact implies exactness, not the converse)
                    return Ok(());
                }
                if flag == Flag::Exact {
                    return fail("flag_exact_for_inexact", format!("flagged Exact but the result {}*{}^{} differs from the true value", v.repr().significand(), base, v.repr().exponent()));
                }
                if y.is_zero() {
                    return fail("error_ge_1ulp", "true value is 0 but the result is not".to_string());
                }
                let ulp = pow_q(base, qref::ulp_exp(y, base, p));
                if (&rq - y).abs() > ulp {
                    return excess(&rq, y, base, p, &format!("result {}*{}^{}, flag {:?}", v.repr().significand(), base, v.repr().exponent(), flag));
                }
                return Ok(());
            }
            // irrational true value: never exact
            if flag == Flag::Exact && exactness_unknown.get() {
                incon = true;
                return Ok(());
            }
            if flag == Flag::Exact {
                return fail("flag_exact_for_inexact", format!("flagged Exact but {}({}) is irrational (result {}*{}^{})", op, show_q(x), v.repr().significand(), base, v.repr().exponent()));
            }
            let mut k = (p as f64 * lb) as u32 + 64;
            for _ in 0..4 {
                if let Some((lo, hi)) = enc(k) {
                    match within_one_ulp(&rq, &lo, &hi, base, p) {
                        Ok(true) => return Ok(()),
                        Ok(false) => {
                            let mid = (&lo + &hi) / Q::from_integer(BigInt::from(2));
                            return excess(&rq, &mid, base, p, &format!("result {}*{}^{}, flag {:?}", v.repr().significand(), base, v.repr().exponent(), flag));
                        }
                        Err(()) => {}
                    }
                }
                k *= 2;
            }
            incon = true;
            Ok(())
        });
        if incon {
            m.inconclusive("enclosure could not decide the ulp test");
        }
        let _ = f;
    };
    match which {
        0..=2 => {
            // exp: magnitudes from B^-1000 to large
            let e = match r.below(8) {
                0 => -(nd as i64) - r.range(0, 1000),
                1 => -(nd as i64),
                2 => -(nd as i64) + 1,
                3 => -(nd as i64) + r.range(1, 3),
                4 => -(nd as i64) + (4.0 / lb * 3.3) as i64 + r.range(0, 3),
                5 if m.thorough() => -(nd as i64) + (20.0 / lb) as i64,
                _ => -(nd as i64) + r.range(-6, 3),
            };
            let sx = if neg { -s.clone() } else { s.clone() };
            let x = q_of_parts(&sx, e, base);
            if x.abs() > Q::from_integer(BigInt::from(if m.thorough() { 2_000_000 } else { 20_000 })) {
                return;
            }
            let rx = Repr::<B>::new(ibig_of_int(&sx), e as isize);
            let res = catch(|| ctx.exp(&rx));
            let xx = x.clone();
            let d = || format!("exp mode={} base={} p={} x={}*{}^{}", Rm::M.name(), base, p, sx, base, e);
            let h = dvh::gen::hash_limbs((e as u64) << 20 ^ (p as u64) << 44 ^ 1, &limbs_of_nat(s.magnitude())) ^ neg as u64;
            judge(m, "exp", Some(Func::Exp), &x, res, None, &move |k| enclose(Func::Exp, &xx, k), &d, h);
        }
        3 | 4 => {
            // exp_m1 incl. the no-scaling branch |x| = B^-k
            let e = match r.below(6) {
                0 => -(nd as i64) - r.range(0, 1000),
                1 => -(nd as i64) - r.range(0, 30),
                2 => -(nd as i64),
                _ => -(nd as i64) + r.range(-4, 3),
            };
            let sx = if neg { -s.clone() } else { s.clone() };
            let x = q_of_parts(&sx, e, base);
            if x.abs() > Q::from_integer(BigInt::from(20_000)) {
                return;
            }
            let rx = Repr::<B>::new(ibig_of_int(&sx), e as isize);
            let res = catch(|| ctx.exp_m1(&rx));
            let xx = x.clone();
            let d = || format!("exp_m1 mode={} base={} p={} x={}*{}^{}", Rm::M.name(), base, p, sx, base, e);
            let h = dvh::gen::hash_limbs((e as u64) << 20 ^ (p as u64) << 44 ^ 2, &limbs_of_nat(s.magnitude())) ^ neg as u64;
            judge(m, "exp_m1", Some(Func::ExpM1), &x, res, None, &move |k| enclose(Func::ExpM1, &xx, k), &d, h);
        }
        5..=7 => {
            // ln: x > 0, from B^-1000 to B^1000, near 1 (1 +- B^-k), exactly 1
            let (sx, e): (BigInt, i64) = match r.below(8) {
                0 => (BigInt::one(), 0),
                1 => {
                    // 1 + B^-k and 1 - B^-k within the precision
                    let k = if overlong { p + r.usize(30) } else { 1 + r.usize(p.max(2) - 1) };
                    let bk = Pow::pow(&BigInt::from(base), k);
                    (if r.bool() { &bk + 1 } else { &bk - 1 }, -(k as i64))
                }
                2 => (s.clone(), r.range(-1000, 1000)),
                3 => (s.clone(), -(nd as i64)),
                4 => (s.clone(), -(nd as i64) + 1),
                _ => (s.clone(), -(nd as i64) + r.range(-5, 5)),
            };
            if !sx.is_positive() {
                return;
            }
            let x = q_of_parts(&sx, e, base);
            let rx = Repr::<B>::new(ibig_of_int(&sx), e as isize);
            let res = catch(|| ctx.ln(&rx));
            let exact = if x.is_one() { Some(Q::zero()) } else { None };
            let xx = x.clone();
            let d = || format!("ln mode={} base={} p={} x={}*{}^{}", Rm::M.name(), base, p, sx, base, e);
            let h = dvh::gen::hash_limbs((e as u64) << 20 ^ (p as u64) << 44 ^ 3, &limbs_of_nat(sx.magnitude()));
            judge(m, "ln", Some(Func::Ln), &x, res, exact, &move |k| enclose(Func::Ln, &xx, k), &d, h);
        }
        8 | 9 => {
            // ln_1p: x > -1
            let e = match r.below(6) {
                0 => -(nd as i64) - r.range(0, 1000),
                1 => -(nd as i64) - r.range(0, 20),
                2 => -(nd as i64),
                _ => -(nd as i64) + r.range(-3, 4),
            };
            let (sx, e) = if overlong && r.bool() {
                // just above -1 with more digits than the precision: -1 + B^-k
                let k = p + r.usize(30);
                { let bk: BigInt = Pow::pow(&BigInt::from(base), k); (-(bk - 1i32), -(k as i64)) }
            } else {
                (if neg { -s.clone() } else { s.clone() }, e)
            };
            let x = q_of_parts(&sx, e, base);
            if x <= -Q::one() {
                return;
            }
            let rx = Repr::<B>::new(ibig_of_int(&sx), e as isize);
            let res = catch(|| ctx.ln_1p(&rx));
            let xx = x.clone();
            let d = || format!("ln_1p mode={} base={} p={} x={}*{}^{}", Rm::M.name(), base, p, sx, base, e);
            let h = dvh::gen::hash_limbs((e as u64) << 20 ^ (p as u64) << 44 ^ 4, &limbs_of_nat(sx.magnitude())) ^ neg as u64;
            judge(m, "ln_1p", Some(Func::Ln1p), &x, res, None, &move |k| enclose(Func::Ln1p, &xx, k), &d, h);
        }
        10..=12 => {
            // powi with exponents of both signs
            let e = -(nd as i64) + r.range(-3, 3);
            let sx = if neg { -s.clone() } else { s.clone() };
            let x = q_of_parts(&sx, e, base);
            let n: i64 = match r.below(8) {
                0 => 0,
                1 => 1,
                2 => -1,
                3 => r.range(-20, 20),
                4 => r.range(-300, 300),
                5 => *r.pick(&[1023i64, 1024, 1025, -1024]),
                6 if m.thorough() => *r.pick(&[65535i64, -65536, 1_000_000, -999_999]),
                _ => r.range(-1500, 1500),
            };
            // keep the result within a sane exponent range
            let mag = (x.abs().to_f64().unwrap_or(1.0).ln() * n as f64).abs();
            if mag > 3.0e6 {
                return;
            }
            let rx = Repr::<B>::new(ibig_of_int(&sx), e as isize);
            let res = catch(|| ctx.powi(&rx, IBig::from(n)));
            // exact rational when cheap, else enclosure through exp(n ln|x|)
            let cheap = (n.unsigned_abs() as u64) * (sx.bits().max(1) + (e.unsigned_abs() as f64 * lb) as u64) < 40_000;
            // x^n is always rational; when it is too expensive to write down it certainly has more
            // than p + 1 digits (|s| > 1), except for |s| = 1 where it is the exact power of the base
            let (mut ns, mut ne) = (sx.clone(), e);
            while !ns.is_zero() && (&ns % BigInt::from(base)).is_zero() {
                ns /= BigInt::from(base);
                ne += 1;
            }
            let sgn = if sx.is_negative() && n % 2 != 0 { -Q::one() } else { Q::one() };
            let exact = if ns.magnitude().is_one() {
                Some(pow_q(base, ne * n) * sgn)
            } else if cheap {
                Some(Pow::pow(&x, n as i32))
            } else if (n.unsigned_abs() as u64) * ns.bits() <= 300_000 && (ne * n).unsigned_abs() <= 1_000_000 {
                // the power of the significand alone is affordable: s^|n| = m * B^k (m not divisible by B).
                // n > 0: x^n = m * B^(k + e n), exactly.  n < 0: x^n = B^(-e|n|) / s^|n| has a finite
                // expansion in base B iff s^|n| divides a power of B (e.g. s = 4, B = 16); otherwise the true
                // value is rational with an infinite expansion and an Exact flag is wrong.
                let sp: BigInt = Pow::pow(ns.magnitude(), n.unsigned_abs() as u32).into();
                if n > 0 {
                    Some(Q::from_integer(sp) * pow_q(base, ne * n) * sgn)
                } else {
                    let j = sp.bits() as u32 + 1;
                    let bj: BigInt = Pow::pow(&BigInt::from(base), j);
                    if (&bj % &sp).is_zero() {
                        Some(Q::new(BigInt::one(), sp) * pow_q(base, ne * n) * sgn)
                    } else {
                        None
                    }
                }
            } else {
                // cannot be written down: an Exact flag cannot be judged
                exactness_unknown.set(true);
                None
            };
            let xx = x.clone();
            let odd_neg = x.is_negative() && n % 2 != 0;
            let enc = move |k: u32| -> Option<(Q, Q)> {
                let extra = 64 - (n.unsigned_abs() as u64).leading_zeros();
                let l = ival::ln_q(&xx.abs(), k + extra + 16);
                let nq = BigInt::from(n);
                let li = l.mul_int(&nq);
                let (a, b) = (ival::exp_q(&li.lo_q(), k + extra + 16)?, ival::exp_q(&li.hi_q(), k + extra + 16)?);
                let (lo, hi) = (a.lo_q(), b.hi_q());
                Some(if odd_neg { (-hi, -lo) } else { (lo, hi) })
            };
            let d = || format!("powi mode={} base={} p={} x={}*{}^{} n={}", Rm::M.name(), base, p, sx, base, e, n);
            let h = dvh::gen::hash_limbs((e as u64) << 20 ^ (p as u64) << 44 ^ (n as u64) << 1 ^ 5, &limbs_of_nat(s.magnitude())) ^ neg as u64;
            if x.is_zero() && n < 0 {
                return;
            }
            judge(m, "powi", None, &x, res, exact, &enc, &d, h);
        }
        13 | 14 => {
            // powf: base >= 0, exponents integer-valued, tiny, general
            let e = -(nd as i64) + r.range(-2, 2);
            let x = q_of_parts(&s, e, base);
            let (ys, ye): (BigInt, i64) = match r.below(6) {
                0 => (BigInt::from(r.range(-6, 6)), 0),
                1 => (BigInt::from(r.range(-9, 9)), -r.range(5, 40)),
                2 => (BigInt::from(5), -1),
                _ => {
                    let yd = 1 + r.usize(nd.min(12));
                    (BigInt::from(arg_sig(r, base, yd)) * if r.bool() { -1 } else { 1 }, -(r.range(0, 12)))
                }
            };
            let y = q_of_parts(&ys, ye, base);
            if (x.to_f64().unwrap_or(1.0).ln() * y.to_f64().unwrap_or(0.0)).abs() > 2.0e4 {
                return;
            }
            let (rx, ry) = (Repr::<B>::new(ibig_of_int(&s), e as isize), Repr::<B>::new(ibig_of_int(&ys), ye as isize));
            let res = catch(|| ctx.powf(&rx, &ry));
            let exact = if y.is_zero() {
                Some(Q::one())
            } else if x.is_one() {
                Some(Q::one())
            } else if y.is_integer() && y.abs() < Q::from_integer(BigInt::from(40)) {
                Some(Pow::pow(&x, y.to_integer().to_i32().unwrap()))
            } else {
                None
            };
            // x^1 is "the base rounded to the precision": rational
            let (xx, yy) = (x.clone(), y.clone());
            let enc = move |k: u32| -> Option<(Q, Q)> {
                let l = ival::ln_q(&xx, k + 32);
                let yi = ival::Iv::from_ratio(&yy, l.k);
                let pr = l.mul(&yi);
                let (a, b) = (ival::exp_q(&pr.lo_q(), k + 32)?, ival::exp_q(&pr.hi_q(), k + 32)?);
                Some((a.lo_q(), b.hi_q()))
            };
            let d = || format!("powf mode={} base={} p={} x={}*{}^{} y={}*{}^{}", Rm::M.name(), base, p, s, base, e, ys, base, ye);
            let h = dvh::gen::hash_limbs(dvh::gen::hash_limbs((e as u64) << 20 ^ (p as u64) << 44 ^ (ye as u64) << 8 ^ 6, &limbs_of_nat(s.magnitude())), &limbs_of_nat(ys.magnitude())) ^ ys.is_negative() as u64;
            judge(m, "powf", None, &x, res, exact, &enc, &d, h);
        }
        _ => {
            // unlimited precision must be refused by panic (trivial exact cases may answer exactly)
            let u = Context::<Rm>::new(0);
            let sx = if neg { -s.clone() } else { s.clone() };
            let e = -(nd as i64) + r.range(-2, 2);
            let rx = Repr::<B>::new(ibig_of_int(&sx), e as isize);
            let x = q_of_parts(&sx, e, base);
            let wf = r.below(5);
            let d = || format!("unlimited f#{} base={} x={}*{}^{}", wf, base, sx, base, e);
            m.check("unlimited", &format!("b{}/f{}", base, wf), Some(dvh::gen::hash_limbs(wf ^ (e as u64) << 8, &limbs_of_nat(s.magnitude()))), &d, || {
                let res = match wf {
                    0 => catch(|| u.exp(&rx)),
                    1 => catch(|| u.exp_m1(&rx)),
                    2 => {
                        if !x.is_positive() {
                            return Ok(());
                        }
                        catch(|| u.ln(&rx))
                    }
                    3 => {
                        if x <= -Q::one() {
                            return Ok(());
                        }
                        catch(|| u.ln_1p(&rx))
                    }
                    _ => {
                        if !x.is_positive() {
                            return Ok(());
                        }
                        catch(|| u.powf(&rx, &Repr::<B>::new(IBig::from(3), -1)))
                    }
                };
                match res {
                    Err(_) => Ok(()),
                    Ok(v) => fail("no_panic", format!("unlimited precision answered {:?}", v.value().repr())),
                }
            });
        }
    }
}

fn case(m: &mut Mon, r: &mut Rng, idx: u64) {
    let mi = idx % 6;
    macro_rules! go {
        ($B:literal) => {
            match mi {
                0 => run::<mode::Zero, $B>(m, r),
                1 => run::<mode::Away, $B>(m, r),
                2 => run::<mode::Up, $B>(m, r),
                3 => run::<mode::Down, $B>(m, r),
                4 => run::<mode::HalfEven, $B>(m, r),
                _ => run::<mode::HalfAway, $B>(m, r),
            }
        };
    }
    match (idx / 6) % 5 {
        0 => go!(2),
        1 => go!(10),
        2 => go!(3),
        3 => go!(16),
        _ => go!(36),
    }
}

fn selftest() -> Result<(), String> {
    qref::selftest()?;
    ival::selftest()
}

fn main() {
    mon::main(Spec {
        prop: "C11",
        quick_cases: 200_000,
        thorough_cases: 3_000_000,
        rule: "6 modes x bases {2,10,3,16,36} (round robin) x precisions 1..3, 4..17, 17/24/34/53/64, 20..100, 100/200/300, quick 2200 in one case per thousand (thorough 500/1000/3000); arguments s*B^e with 1..p digits: exp with |x| from B^-1000 to 2*10^4 (thorough 2*10^6), exp_m1 incl. the no-scaling branch, ln from B^-1000 to B^1000 and at 1 +- B^-k (cancellation) and exactly 1, ln_1p down to B^-1000 and near -1, powi with exponents 0, +-1, up to +-5000 (thorough +-10^6) incl. 2^k boundaries, powf with integer-valued, tiny and general exponents; unlimited precision must panic. The true value is enclosed by an outward-rounded interval evaluation (own atanh/Taylor series with explicit remainder bounds, self-tested against f64 each run, validated against mpmath at development time) refined up to 8x the working precision; a case that stays undecided is counted inconclusive. Rational true values (ln 1, x^n when cheap, powf with small integer exponents) are judged exactly, incl. the Exact flag.",
        assumptions: &["ulp of the true value; when the enclosure straddles a power of the base the larger ulp is used for the violation test", "transcendental results are never Exact except at the trivial points (Lindemann-Weierstrass)"],
        required: &[("exp", false), ("exp_m1", false), ("ln", false), ("ln_1p", false), ("powi", false), ("powf", false), ("unlimited", false), ("LOOP_EXP", false), ("LOOP_LN", false)],
        case,
        selftest: Some(selftest),
        panic_finding: None,
    });
}
