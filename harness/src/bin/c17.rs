//! C17 — memory safety and storage invariants of the hand-managed integer storage (native part:
//! histories with layout-invariant hook, shadow values, buffer-sharing check and a counting allocator).
//! The sanitizer parts (Miri / ASan / memcheck on the same history code) are driven by scripts/c17.sh.
use dvh::hist::{run_history, Cfg};
use dvh::mon::{self, fail, Mon, Spec};
use dvh::rng::Rng;
use std::alloc::{GlobalAlloc, Layout, System};
use std::sync::atomic::{AtomicI64, AtomicU64, Ordering::Relaxed};

struct Counting;
static LIVE_BLOCKS: AtomicI64 = AtomicI64::new(0);
static LIVE_BYTES: AtomicI64 = AtomicI64::new(0);
static ALLOCS: AtomicU64 = AtomicU64::new(0);

// SAFETY: forwards to the system allocator, only counting
unsafe impl GlobalAlloc for Counting {
    unsafe fn alloc(&self, l: Layout) -> *mut u8 {
        LIVE_BLOCKS.fetch_add(1, Relaxed);
        LIVE_BYTES.fetch_add(l.size() as i64, Relaxed);
        ALLOCS.fetch_add(1, Relaxed);
        System.alloc(l)
    }
    unsafe fn dealloc(&self, p: *mut u8, l: Layout) {
        LIVE_BLOCKS.fetch_sub(1, Relaxed);
        LIVE_BYTES.fetch_sub(l.size() as i64, Relaxed);
        System.dealloc(p, l)
    }
    unsafe fn realloc(&self, p: *mut u8, l: Layout, new_size: usize) -> *mut u8 {
        LIVE_BYTES.fetch_add(new_size as i64 - l.size() as i64, Relaxed);
        System.realloc(p, l, new_size)
    }
}

#[global_allocator]
static GLOBAL: Counting = Counting;

fn case(m: &mut Mon, r: &mut Rng, idx: u64) {
    let heavy = idx % 16 == 0;
    let cfg = Cfg { pool: 8, steps: if m.thorough() { 400 } else { 150 }, max_limbs: if heavy { 40 } else { 12 }, cap_limbs: if heavy { 500 } else { 60 }, heavy };
    let seed_desc = format!("history idx={} pool=8 steps={} heavy={}", idx, cfg.steps, heavy);
    let mut log: Vec<String> = Vec::new();
    // the log vector and the stats map allocate too: measure around the history with everything
    // that survives it allocated beforehand or accounted for
    let mut rr = r.clone();
    let res;
    let (b0, y0) = (LIVE_BLOCKS.load(Relaxed), LIVE_BYTES.load(Relaxed));
    let (b1, y1);
    {
        let out = run_history(&mut rr, &cfg, &mut log);
        // drop everything the history allocated except `out`/`log`, whose sizes we subtract by dropping them first
        let summary = out.as_ref().map(|s| (s.steps, s.heap_to_inline, s.inline_to_heap, s.clone_from_cases, s.self_alias, s.statics_used)).map_err(|e| e.clone());
        drop(out);
        log.clear();
        log.shrink_to_fit();
        b1 = LIVE_BLOCKS.load(Relaxed);
        y1 = LIVE_BYTES.load(Relaxed);
        res = summary;
    }
    let leaked_blocks = b1 - b0 - if res.is_err() { 1 } else { 0 }; // the error String is still alive
    let d = || seed_desc.clone();
    m.check("history", if heavy { "heavy" } else { "light" }, Some(idx), &d, || match &res {
        Err(e) => fail("history", e.clone()),
        Ok(_) => {
            if leaked_blocks != 0 || y1 != y0 {
                return fail("leak", format!("allocator imbalance after dropping the pool: {} blocks, {} bytes (alloc/dealloc size mismatch or leak)", leaked_blocks, y1 - y0));
            }
            Ok(())
        }
    });
    if let Ok((steps, h2i, i2h, cf, sa, stat)) = res {
        m.note_n("steps", steps);
        m.note_n("heap_to_inline", h2i);
        m.note_n("inline_to_heap", i2h);
        m.note_n("clone_from_smaller_host", cf[0]);
        m.note_n("clone_from_equal_host", cf[1]);
        m.note_n("clone_from_larger_host", cf[2]);
        m.note_n("clone_from_inline_source", cf[3]);
        m.note_n("self_alias_ops", sa);
        m.note_n("static_words_ops", stat);
    }
}

fn main() {
    mon::main(Spec {
        prop: "C17",
        quick_cases: 40_000,
        thorough_cases: 1_500_000,
        rule: "One case = one history of 150 (thorough 400) steps over a pool of 8 live integers: construction (words, bytes, parse, parts, primitives), + - * / % & | ^ by value/reference and in place incl. self-aliasing through clones, clone_from for every size relation, mem::take/replace/drop, shifts across the 2<->3 word boundary, word/byte/chunk round trips, sign/parts ops, static-word values as operands and clone sources, every 16th history with Karatsuba/Toom-3/divide-and-conquer scratch sizes. After every step: touched slot == num-bigint shadow, layout invariant (hook), untouched slots unchanged, no two live values share a buffer; after the pool is dropped the counting allocator must be back to its baseline in blocks and bytes. distinct = history index (each has its own seed).",
        assumptions: &["counting allocator tracks block/byte balance only (address-level errors are left to Miri/ASan/memcheck runs of the same history code, see coverage.sanitizers)"],
        required: &[("history/light", false), ("history/heavy", false), ("heap_to_inline", false), ("inline_to_heap", false), ("clone_from_smaller_host", false), ("clone_from_larger_host", false), ("self_alias_ops", false), ("static_words_ops", false), ("CLONE_FROM_REALLOC", false)],
        case,
        selftest: None,
        panic_finding: None,
    });
}
