//! C19 worker: replays a deterministic corpus and prints one digest line per case. The driver
//! (scripts/c19.py) builds this binary in every build configuration (word size, std feature, debug
//! assertions) and compares the outputs; in-process checks (serde round trips, canonical decoding,
//! log2 bounds) print INPROC-VIOLATION lines.   usage: c19w <seed> <first> <count>
use dashu_base::{Approximation, DivRem, EstimatedLog2, ExtendedGcd, Gcd, SquareRoot, SquareRootRem};
use dashu_float::{round::mode, FBig, Repr};
use dashu_int::{fast_div::ConstDivisor, IBig, UBig};
use dashu_ratio::{RBig, Relaxed};
use dvh::conv::*;
use dvh::gen;
use dvh::layout;
use dvh::rng::Rng;
use num_bigint::BigInt;
use num_rational::BigRational;

type F2 = FBig<mode::Zero, 2>;
type F10 = FBig<mode::HalfAway, 10>;

fn flag<T>(a: &Approximation<T, dashu_float::round::Rounding>) -> &'static str {
    match a {
        Approximation::Exact(_) => "E",
        Approximation::Inexact(_, dashu_float::round::Rounding::NoOp) => "N",
        Approximation::Inexact(_, dashu_float::round::Rounding::AddOne) => "A",
        Approximation::Inexact(_, dashu_float::round::Rounding::SubOne) => "S",
    }
}

fn fshow<R: dashu_float::round::Round, const B: dashu_int::Word>(f: &FBig<R, B>) -> String {
    format!("{:x}*{}^{}p{}", f.repr().significand(), B, f.repr().exponent(), f.precision())
}

fn hexs(b: &[u8]) -> String {
    b.iter().map(|x| format!("{:02x}", x)).collect()
}

static INPROC: std::sync::Mutex<Vec<String>> = std::sync::Mutex::new(Vec::new());
fn inproc(idx: u64, what: String) {
    INPROC.lock().unwrap().push(format!("INPROC-VIOLATION idx={} {}", idx, what));
}


/// The same fields presented by a self-describing binary medium as a map keyed by field name (any key order):
/// the decoded number must be the one the sequence medium (postcard) and `from_parts` give, in canonical form,
/// or an error; incomplete / duplicated fields must be refused.
fn map_medium_checks(idx: u64, r: &mut Rng, ia: &IBig, ib: &IBig, ub: &UBig) {
    use dvh::mapmed::{from_v, V};
    let raw_i = |x: &IBig| postcard::from_bytes::<Vec<u8>>(&postcard::to_allocvec(x).unwrap()).unwrap();
    let raw_u = |x: &UBig| postcard::from_bytes::<Vec<u8>>(&postcard::to_allocvec(x).unwrap()).unwrap();
    let k = r.usize(4);
    let e0 = r.range(-30, 30) as isize;
    let prec = if r.chance(1, 5) { 0 } else { 400 + r.usize(100) };
    let rot = r.usize(3);
    // floats: significand * B^k (not normalised as written) in bases 2 and 10
    macro_rules! fl {
        ($t:ty, $base:expr, $src:expr) => {{
            let sig = $src * IBig::from($base as u8).pow(k);
            let want = <$t>::from_parts(sig.clone(), e0);
            let mut fields = vec![("significand", V::Bytes(raw_i(&sig))), ("exponent", V::I64(e0 as i64)), ("precision", V::U64(prec as u64))];
            fields.rotate_left(rot);
            match from_v::<$t>(V::Map(fields.clone())) {
                Ok(v) => {
                    if v.repr().significand() != want.repr().significand() || v.repr().exponent() != want.repr().exponent() {
                        inproc(idx, format!("map-presenting medium decoded FBig base {} fields ({}, {}) into {:?}, from_parts gives {:?}", $base, sig, e0, v.repr(), want.repr()));
                    } else if v.precision() != prec {
                        inproc(idx, format!("map-presenting medium decoded precision {} as {}", prec, v.precision()));
                    }
                    // the sequence medium on the same fields
                    let seq = postcard::to_allocvec(&(sig.clone(), e0, prec)).unwrap();
                    match postcard::from_bytes::<$t>(&seq) {
                        Ok(p) if p.repr().significand() == v.repr().significand() && p.repr().exponent() == v.repr().exponent() && p.precision() == v.precision() => {}
                        other => inproc(idx, format!("map medium and sequence medium decode the fields ({}, {}, {}) differently: {:?} vs {:?}", sig, e0, prec, v.repr(), other.map(|p| p.repr().clone()))),
                    }
                }
                Err(e) => inproc(idx, format!("map-presenting medium refused a valid FBig base {} ({}, {}, {}): {}", $base, sig, e0, prec, e)),
            }
            // the bare representation (two fields)
            let mut f2 = vec![("significand", V::Bytes(raw_i(&sig))), ("exponent", V::I64(e0 as i64))];
            f2.rotate_left(rot % 2);
            match from_v::<Repr<{ $base }>>(V::Map(f2)) {
                Ok(v) if v.significand() == want.repr().significand() && v.exponent() == want.repr().exponent() => {}
                other => inproc(idx, format!("map-presenting medium decoded Repr base {} fields ({}, {}) into {:?}, want {:?}", $base, sig, e0, other, want.repr())),
            }
            // a missing and a duplicated field are malformed
            let mut miss = fields.clone();
            miss.remove(rot);
            if let Ok(v) = from_v::<$t>(V::Map(miss)) {
                inproc(idx, format!("map-presenting medium accepted an FBig with a missing field: {:?}", v.repr()));
            }
            let mut dup = fields.clone();
            dup.push(fields[rot].clone());
            if let Ok(v) = from_v::<$t>(V::Map(dup)) {
                inproc(idx, format!("map-presenting medium accepted an FBig with a duplicated field: {:?}", v.repr()));
            }
        }};
    }
    fl!(F2, 2, ib);
    fl!(F10, 10, ia);
    // rationals: parts with a common factor c, zero denominators
    let c = *r.pick(&[1u8, 2, 3, 6, 10]);
    let (num, den) = (ia * IBig::from(c), ub * UBig::from(c));
    let mut fields = vec![("numerator", V::Bytes(raw_i(&num))), ("denominator", V::Bytes(raw_u(&den)))];
    fields.rotate_left(rot % 2);
    let got = from_v::<RBig>(V::Map(fields.clone()));
    if ub.is_zero() {
        if let Ok(v) = &got {
            inproc(idx, format!("map-presenting medium decoded a zero denominator into RBig {}/{}", v.numerator(), v.denominator()));
        }
        if let Ok(v) = from_v::<Relaxed>(V::Map(fields.clone())) {
            inproc(idx, format!("map-presenting medium decoded a zero denominator into Relaxed {}/{}", v.numerator(), v.denominator()));
        }
    } else {
        let want = RBig::from_parts(ia.clone(), ub.clone());
        match got {
            Ok(v) if v.numerator() == want.numerator() && v.denominator() == want.denominator() => {}
            Ok(v) => inproc(idx, format!("map-presenting medium decoded {}/{} into the RBig {}/{} (canonical: {}/{})", num, den, v.numerator(), v.denominator(), want.numerator(), want.denominator())),
            Err(_) if c != 1 => {} // refusing unreduced parts is allowed
            Err(e) => inproc(idx, format!("map-presenting medium refused a valid RBig {}/{}: {}", num, den, e)),
        }
        match from_v::<Relaxed>(V::Map(fields.clone())) {
            Ok(v) if !v.denominator().is_zero() && v.numerator() * IBig::from(want.denominator().clone()) == want.numerator() * IBig::from(v.denominator().clone()) => {}
            Ok(v) => inproc(idx, format!("map-presenting medium decoded {}/{} into the Relaxed {}/{}", num, den, v.numerator(), v.denominator())),
            Err(e) => inproc(idx, format!("map-presenting medium refused a valid Relaxed {}/{}: {}", num, den, e)),
        }
    }
    let mut miss = fields.clone();
    miss.remove(rot % 2);
    if let Ok(v) = from_v::<RBig>(V::Map(miss)) {
        inproc(idx, format!("map-presenting medium accepted an RBig with a missing field: {}", v));
    }
}

/// decoding arbitrary bytes/strings: Err, or a value whose representation is canonical
fn f2_to_10(f: &F10) -> Repr<10> {
    f.repr().clone()
}

fn decode_checks(idx: u64, r: &mut Rng, good_json: &str, good_bin: &[u8]) {
    // mutated human-readable stream
    let mut j: Vec<u8> = good_json.as_bytes().to_vec();
    if !j.is_empty() {
        let p = r.usize(j.len());
        match r.below(4) {
            0 => j[p] = *r.pick(&[b'0', b'9', b'-', b'"', b'x', b'/', b'.', b'_', b' ']),
            1 => {
                j.truncate(p);
            }
            2 => j.insert(p, *r.pick(&[b'-', b'/', b'0', b'"'])),
            _ => {}
        }
    }
    if let Ok(text) = std::str::from_utf8(&j) {
        if let Ok(v) = serde_json::from_str::<IBig>(text) {
            if let Err(e) = layout::check_i(&v) {
                inproc(idx, format!("serde_json decoded {:?} into a non-canonical IBig: {}", text, e));
            }
        }
        if let Ok(v) = serde_json::from_str::<RBig>(text) {
            let (n, d) = (int_of(v.numerator()), nat_of(v.denominator()));
            use num_integer::Integer;
            use num_traits::{One, Zero};
            if d.is_zero() || (!n.is_zero() && !n.magnitude().gcd(&d).is_one()) || (n.is_zero() && !d.is_one()) {
                inproc(idx, format!("serde_json decoded {:?} into a non-canonical RBig {}/{}", text, n, d));
            }
        }
        let _ = serde_json::from_str::<UBig>(text);
        let _ = serde_json::from_str::<F10>(text);
        let _ = serde_json::from_str::<Relaxed>(text);
    }
    // mutated binary stream
    let mut b = good_bin.to_vec();
    if !b.is_empty() {
        let p = r.usize(b.len());
        match r.below(4) {
            0 => b[p] = r.u64() as u8,
            1 => b.truncate(p),
            2 => b.insert(p, r.u64() as u8),
            _ => b.push(0),
        }
    }
    if let Ok(v) = postcard::from_bytes::<UBig>(&b) {
        if let Err(e) = layout::check_u(&v) {
            inproc(idx, format!("postcard decoded {} into a non-canonical UBig: {}", hexs(&b), e));
        }
    }
    if let Ok(v) = postcard::from_bytes::<IBig>(&b) {
        if let Err(e) = layout::check_i(&v) {
            inproc(idx, format!("postcard decoded {} into a non-canonical IBig: {}", hexs(&b), e));
        }
    }
    if let Ok(v) = postcard::from_bytes::<RBig>(&b) {
        use num_integer::Integer;
        use num_traits::{One, Zero};
        let (n, d) = (int_of(v.numerator()), nat_of(v.denominator()));
        if d.is_zero() || (!n.is_zero() && !n.magnitude().gcd(&d).is_one()) || (n.is_zero() && !d.is_one()) {
            inproc(idx, format!("postcard decoded {} into a non-canonical RBig {}/{}", hexs(&b), n, d));
        }
    }
    if let Ok(v) = postcard::from_bytes::<Relaxed>(&b) {
        use num_traits::Zero;
        if nat_of(v.denominator()).is_zero() {
            inproc(idx, format!("postcard decoded {} into a Relaxed with denominator 0", hexs(&b)));
        }
    }
    if let Ok(v) = postcard::from_bytes::<F2>(&b) {
        let sig = int_of(v.repr().significand());
        use num_traits::Zero as _;
        if !sig.is_zero() && (&sig % BigInt::from(2)).is_zero() {
            inproc(idx, format!("postcard decoded {} into a non-normalized FBig<_,2> (even significand {:x})", hexs(&b), sig));
        }
    }
    if let Ok(v) = postcard::from_bytes::<Repr<10>>(&b) {
        let sig = int_of(v.significand());
        use num_traits::Zero as _;
        if !sig.is_zero() && (&sig % BigInt::from(10)).is_zero() {
            inproc(idx, format!("postcard decoded {} into a non-normalized Repr<10> (significand {} divisible by 10)", hexs(&b), sig));
        }
    }
}

fn one(idx: u64, seed: u64) -> String {
    let mut r = Rng::for_case(seed, "C19", idx);
    let r = &mut r;
    // mostly up to 40 limbs (80 words of 32 bit: both sides of the schoolbook/Karatsuba switch of every
    // word size), now and then up to 420 limbs (Toom-3, divide-and-conquer division and radix conversion)
    let mx = if r.chance(1, 40) { 420 } else { 40 };
    let (al, bl) = (gen::mag(r, mx), gen::mag(r, mx));
    let (na, nb) = (r.bool(), r.bool());
    let (ua, ub) = (ubig(&al), ubig(&bl));
    let (ia, ib) = (ibig(na, &al), ibig(nb, &bl));
    match idx % 16 {
        0 => format!("arith {:x} {:x} {:x}", &ia + &ib, &ia - &ib, &ia * &ib),
        1 => {
            if ub.is_zero() {
                return "div by zero skipped".into();
            }
            let (q, rem) = (&ia).div_rem(&ib);
            let cd = ConstDivisor::new(ub.clone());
            format!("div {:x} {:x} {:x}", q, rem, &ua % &cd)
        }
        2 => {
            if ua.is_zero() && ub.is_zero() {
                return "gcd(0,0) skipped".into();
            }
            let (g, s, t) = (&ua).gcd_ext(&ub);
            // the Bezout pair is not unique in principle: print it, equal builds must agree
            format!("gcd {:x} {:x} {:x} {:x}", (&ua).gcd(&ub), g, s, t)
        }
        3 => {
            let e = r.usize(40);
            let small = &ua % UBig::from(1u64 << 40);
            let (s, rem) = ua.sqrt_rem();
            format!("pow {:x} sqrt {:x} {:x} root {:x} ilog {}", small.pow(e), s, rem, ua.nth_root(3 + r.usize(5)), if ua.is_zero() { 0 } else { ua.ilog(&UBig::from(10u8)) })
        }
        4 => {
            let n = r.usize(300);
            format!("bits {:x} {:x} {:x} {:x} {:x} tz={:?} to={:?} ones={}", &ia & &ib, &ia | &ib, &ia ^ &ib, &ia >> n, &ia << n, ia.trailing_zeros(), ia.trailing_ones(), ua.count_ones())
        }
        5 => {
            let radix = 2 + r.below(35) as u32;
            let s = format!("{}", ia.in_radix(radix));
            let back = IBig::from_str_radix(&s, radix).map(|v| v == ia);
            format!("radix{} {} back={:?} le={} be={}", radix, s, back, hexs(&ia.to_le_bytes()), hexs(&ub.to_be_bytes()))
        }
        6 => {
            let ml = { let mut v = gen::small_mag(r); if gen::nlimbs(&v) == 0 { v = vec![97]; } v };
            let ring = ConstDivisor::new(ubig(&ml));
            let x = ring.reduce(ia.clone());
            format!("mod {:x} {:x} {:?}", x.pow(&ub).residue(), (&x * &ring.reduce(ib.clone())).residue(), x.inv().map(|v| format!("{:x}", v.residue())))
        }
        7 => format!("tofloat {:x} {:x} {:?} {:?}", ia.to_f64().value().to_bits(), ua.to_f32().value().to_bits(), ia.to_f64().error(), f64::try_from(ia.clone()).is_ok()),
        8 | 9 => {
            // floats, base 2 and 10
            let (ea, eb) = (r.range(-40, 40) as isize, r.range(-40, 40) as isize);
            let (sa, sb) = (gen::small_mag(r), gen::small_mag(r));
            let p = 1 + r.usize(40);
            if idx % 16 == 8 {
                let (x, y) = (F2::from_parts(ibig(na, &sa), ea).with_precision(p).value(), F2::from_parts(ibig(nb, &sb), eb).with_precision(p).value());
                let d = if y.repr().is_zero() { "div0".to_string() } else { fshow(&(&x / &y)) };
                format!("f2 {} {} {} {} sqrt={} dec={}{}", fshow(&(&x + &y)), fshow(&(&x - &y)), fshow(&(&x * &y)), d, if x.repr().sign() == dashu_base::Sign::Negative { "neg".into() } else { fshow(&x.sqrt()) }, fshow(&x.to_decimal().value()), flag(&x.to_decimal()))
            } else {
                let (x, y) = (F10::from_parts(ibig(na, &sa), ea).with_precision(p).value(), F10::from_parts(ibig(nb, &sb), eb).with_precision(p).value());
                let d = if y.repr().is_zero() { "div0".to_string() } else { fshow(&(&x / &y)) };
                format!("f10 {} {} {} {} bin={}{} f64={:x}{} str={}", fshow(&(&x + &y)), fshow(&(&x - &y)), fshow(&(&x * &y)), d, fshow(&x.to_binary().value()), flag(&x.to_binary()), x.to_f64().value().to_bits(), flag(&x.to_f64()), x)
            }
        }
        10 => {
            // elementary functions (deterministic algorithms; every build must agree)
            let s = gen::small_mag(r);
            let p = 2 + r.usize(30);
            let x = F10::from_parts(ibig(na, &s), -(r.range(0, 25)) as isize).with_precision(p).value();
            let ln = if x.repr().sign() == dashu_base::Sign::Positive && !x.repr().is_zero() { fshow(&x.ln()) } else { "dom".into() };
            let ex = if x.repr().exponent() + x.repr().digits() as isize <= 3 { fshow(&x.exp()) } else { "big".into() };
            format!("elem ln={} exp={} powi={}", ln, ex, fshow(&x.powi(IBig::from(r.range(-9, 9)))))
        }
        11 => {
            if ub.is_zero() {
                return "ratio den 0 skipped".into();
            }
            let q = RBig::from_parts(ia.clone(), ub.clone());
            let q2 = RBig::from_parts(ib.clone(), ua.clone() + UBig::ONE);
            format!("ratio {} {} {} f64={:x} near={:?} simp={:?}", &q + &q2, &q * &q2, if q2.is_zero() { RBig::ZERO } else { &q / &q2 }, q.to_f64().value().to_bits(), q.nearest(&UBig::from(1000u16)).map(|v| v.to_string()), RBig::simplest_from_f64(q.to_f64().value()).map(|v| v.to_string()))
        }
        12 | 13 => {
            // serde: identical bytes in every build, round trips, canonical decoding
            let q = if ub.is_zero() { RBig::from(ia.clone()) } else { RBig::from_parts(ia.clone(), ub.clone()) };
            let rx = if ub.is_zero() { Relaxed::from(ia.clone()) } else { Relaxed::from_parts(&ia * IBig::from(6), &ub * UBig::from(4u8)) };
            let f = F10::from_parts(ia.clone(), r.range(-30, 30) as isize).with_precision(10 + al.len() * 20).value();
            let f2 = F2::from_parts(ib.clone(), r.range(-30, 30) as isize);
            let j = format!("{}|{}|{}|{}|{}|{}", serde_json::to_string(&ua).unwrap(), serde_json::to_string(&ia).unwrap(), serde_json::to_string(&q).unwrap(), serde_json::to_string(&rx).unwrap(), serde_json::to_string(&f).unwrap(), serde_json::to_string(f2.repr()).unwrap());
            let pu = postcard::to_allocvec(&ua).unwrap();
            let pi = postcard::to_allocvec(&ia).unwrap();
            let pq = postcard::to_allocvec(&q).unwrap();
            let px = postcard::to_allocvec(&rx).unwrap();
            let pf = postcard::to_allocvec(&f).unwrap();
            let pr = postcard::to_allocvec(f2.repr()).unwrap();
            // round trips
            macro_rules! rt {
                ($t:ty, $v:expr, $bin:expr) => {{
                    match postcard::from_bytes::<$t>(&$bin) {
                        Ok(back) if back == $v => {}
                        other => inproc(idx, format!("postcard round trip of {} failed: {:?}", stringify!($t), other.map(|_| "different value"))),
                    }
                    let js = serde_json::to_string(&$v).unwrap();
                    match serde_json::from_str::<$t>(&js) {
                        Ok(back) if back == $v => {}
                        other => inproc(idx, format!("serde_json round trip of {} through {} failed: {:?}", stringify!($t), js, other.map(|_| "different value"))),
                    }
                }};
            }
            rt!(UBig, ua, pu);
            rt!(IBig, ia, pi);
            rt!(RBig, q, pq);
            rt!(Relaxed, rx, px);
            rt!(F10, f, pf);
            match postcard::from_bytes::<F10>(&pf) {
                Ok(back) if back.precision() == f.precision() => {}
                _ => inproc(idx, "postcard round trip of FBig lost the precision".to_string()),
            }
            // floats of unlimited precision (the constants, with_precision(0), const-constructed numbers) are values a
            // medium has to carry like any other
            let fu: F10 = match r.below(4) {
                0 => F10::ONE,
                1 => F10::NEG_ONE,
                2 => f.clone().with_precision(0).value(),
                _ => F10::from_repr(f2_to_10(&f), dashu_float::Context::new(0)),
            };
            let fu2: F2 = if r.bool() { f2.clone().with_precision(0).value() } else { F2::NEG_ONE };
            let (pfu, pfu2) = (postcard::to_allocvec(&fu).unwrap(), postcard::to_allocvec(&fu2).unwrap());
            rt!(F10, fu, pfu);
            rt!(F2, fu2, pfu2);
            // (the human-readable form is the printed number, which carries no precision; only the binary form stores it)
            match postcard::from_bytes::<F10>(&pfu) {
                Ok(a) if a.precision() == 0 => {}
                a => inproc(idx, format!("postcard round trip of an FBig of unlimited precision ({:?}) changed the precision: {:?}", fu.repr(), a.map(|v| v.precision()))),
            }
            decode_checks(idx, r, &serde_json::to_string(&q).unwrap(), &pq);
            decode_checks(idx, r, &serde_json::to_string(&ia).unwrap(), &pi);
            map_medium_checks(idx, r, &ia, &ib, &ub);
            format!("serde {} bin={}|{}|{}|{}|{}|{}|{}|{}", j, hexs(&pu), hexs(&pi), hexs(&pq), hexs(&px), hexs(&pf), hexs(&pr), hexs(&pfu), hexs(&pfu2))
        }
        14 => {
            // bounds-only operation: the enclosure must hold in this build (the bounds themselves may differ)
            let x = if ua.is_zero() { UBig::ONE } else { ua.clone() };
            let (lb, ub2) = x.log2_bounds();
            let xq = BigRational::from_integer(BigInt::from(nat_of(&x)));
            let l = dvh::ival::log2_q(&xq, 128);
            let (lq, uq) = (BigRational::from_float(lb).unwrap(), BigRational::from_float(ub2).unwrap());
            if lq > l.hi_q() || uq < l.lo_q() {
                inproc(idx, format!("log2_bounds({:x}) = ({}, {}) does not enclose log2 ~ {}", x, lb, ub2, l.to_f64_mid()));
            }
            let w = r.u64() | 1;
            let (lb, ub2) = w.log2_bounds();
            let l = dvh::ival::log2_q(&BigRational::from_integer(BigInt::from(w)), 128);
            if BigRational::from_float(lb).unwrap() > l.hi_q() || BigRational::from_float(ub2).unwrap() < l.lo_q() {
                inproc(idx, format!("log2_bounds({}u64) = ({}, {}) does not enclose log2 ~ {}", w, lb, ub2, l.to_f64_mid()));
            }
            // the integer logarithm built on top of the estimate must be identical everywhere
            format!("ilog {} {}", x.ilog(&UBig::from(3u8)), x.ilog(&UBig::from(w | 2)))
        }
        _ => {
            // arbitrary byte strings decode to the same number in every build, and re-encode canonically
            let n = r.usize(40);
            let bytes: Vec<u8> = (0..n).map(|_| if r.chance(1, 4) { *r.pick(&[0u8, 0xff, 0x80, 0x7f]) } else { r.u64() as u8 }).collect();
            let (ul, ube) = (UBig::from_le_bytes(&bytes), UBig::from_be_bytes(&bytes));
            let (il, ibe) = (IBig::from_le_bytes(&bytes), IBig::from_be_bytes(&bytes));
            for (what, e) in [("UBig::from_le_bytes", layout::check_u(&ul)), ("UBig::from_be_bytes", layout::check_u(&ube)), ("IBig::from_le_bytes", layout::check_i(&il)), ("IBig::from_be_bytes", layout::check_i(&ibe))] {
                if let Err(e) = e {
                    inproc(idx, format!("{}({}) is not canonical: {}", what, hexs(&bytes), e));
                }
            }
            if UBig::from_le_bytes(&ul.to_le_bytes()) != ul || IBig::from_be_bytes(&ibe.to_be_bytes()) != ibe || IBig::from_le_bytes(&il.to_le_bytes()) != il {
                inproc(idx, format!("bytes {} do not survive decode -> encode -> decode", hexs(&bytes)));
            }
            let s = ia.sqrt_or_zero();
            format!("misc {:x} cmp={:?} {:?} bytes {:x} {:x} {:x} {:x}", s, ia.cmp(&ib), ua.partial_cmp(&ub), ul, ube, il, ibe)
        }
    }
}

trait SqrtOrZero {
    fn sqrt_or_zero(&self) -> UBig;
}
impl SqrtOrZero for IBig {
    fn sqrt_or_zero(&self) -> UBig {
        if self.sign() == dashu_base::Sign::Negative {
            UBig::ZERO
        } else {
            self.sqrt()
        }
    }
}

fn main() {
    let a: Vec<String> = std::env::args().collect();
    let seed: u64 = a.get(1).and_then(|s| s.parse::<i64>().ok()).unwrap_or(1) as u64;
    let first: u64 = a.get(2).and_then(|s| s.parse().ok()).unwrap_or(0);
    let count: u64 = a.get(3).and_then(|s| s.parse().ok()).unwrap_or(1000);
    let full = a.iter().any(|s| s == "--full");
    dvh::mon::install_panic_hook();
    // what this binary itself observes about its build (recorded by the driver as evidence that the
    // configurations really differ): word size, std feature, debug assertions, overflow checks and the
    // log2 estimator in use (f32::log2 with std, 8-bit table without)
    let overflow_checks = dvh::mon::catch(|| {
        let x: u8 = std::hint::black_box(255);
        x + std::hint::black_box(1)
    })
    .is_err();
    println!("CONFIG word_bits={} std={} debug_assertions={} overflow_checks={} log2_bounds_3u8={:?} log2_bounds_1e6={:?}", dashu_int::Word::BITS, cfg!(feature = "std"), cfg!(debug_assertions), overflow_checks, 3u8.log2_bounds(), UBig::from(1000000u32).log2_bounds());
    use std::io::Write;
    let out = std::io::stdout();
    let mut out = std::io::BufWriter::new(out.lock());
    for idx in first..first + count {
        let line = match dvh::mon::catch(|| one(idx, seed)) {
            Ok(line) => line,
            Err(p) => format!("PANIC {}", dvh::mon::normalize_msg(&p)),
        };
        for l in INPROC.lock().unwrap().drain(..) {
            writeln!(out, "{}", l).unwrap();
        }
        if full {
            writeln!(out, "{} {}", idx, line).unwrap();
        } else {
            let op = line.split(' ').next().unwrap_or("");
            let trivial = line.contains("skipped") || line.starts_with("PANIC");
            writeln!(out, "{} {} {:016x} {}", idx, op, dvh::rng::hash_str(&line), if trivial { "t" } else { "n" }).unwrap();
        }
    }
}
