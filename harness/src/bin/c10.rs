//! C10 — rounding to integers / fewer digits: FBig trunc/floor/ceil/round/fract/split_at_point/to_int/
//! with_precision, Repr::to_int, RBig/Relaxed rounding, and the public primitives round_fract / round_ratio.
use dashu_base::Approximation;
use dashu_float::{round::mode, round::Rounding, FBig, Repr};
use dashu_int::{IBig, Word};
use dashu_ratio::{RBig, Relaxed};
use dvh::conv::*;
use dvh::ensure;
use dvh::mon::{self, catch, fail, Mon, Spec, R};
use dvh::qref::{self, check_contract, digits, round_units, Flag, Mode, ModeTag};
use dvh::rng::Rng;
use num_bigint::{BigInt, BigUint};
use num_rational::BigRational;
use num_traits::{One, Pow, Signed, Zero};

fn expect_adjust(got: Rounding, want: &BigInt, what: &str) -> R {
    let g = match got {
        Rounding::NoOp => 0,
        Rounding::AddOne => 1,
        Rounding::SubOne => -1,
    };
    ensure!(BigInt::from(g) == *want, "adjust", "{}: returned {:?} but the definition gives {}", what, got, want);
    Ok(())
}

fn prim<Rm: ModeTag, const B: Word>(integer: &BigInt, fract: &BigInt, k: usize) -> R {
    let base = B as u32;
    let v = BigRational::from_integer(integer.clone()) + BigRational::new(fract.clone(), Pow::pow(&BigInt::from(base), k));
    let want = round_units(&v, Rm::M) - integer;
    let got = catch(|| Rm::round_fract::<B>(&ibig_of_int(integer), ibig_of_int(fract), k)).or_else(|p| fail("unexpected_panic", p))?;
    expect_adjust(got, &want, &format!("round_fract::<{}>(mode {}, {} + {}/{}^{})", base, Rm::M.name(), integer, fract, base, k))
}

fn prim_ratio<Rm: ModeTag>(integer: &BigInt, num: &BigInt, den: &BigInt) -> R {
    let v = BigRational::from_integer(integer.clone()) + BigRational::new(num.clone(), den.clone());
    let want = round_units(&v, Rm::M) - integer;
    let got = catch(|| Rm::round_ratio(&ibig_of_int(integer), ibig_of_int(num), &ibig_of_int(den))).or_else(|p| fail("unexpected_panic", p))?;
    expect_adjust(got, &want, &format!("round_ratio(mode {}, {} + {}/{})", Rm::M.name(), integer, num, den))
}

macro_rules! all_modes {
    ($f:ident::<$($B:literal)?>($($a:expr),*)) => {{
        $f::<mode::Zero $(, $B)?>($($a),*)?;
        $f::<mode::Away $(, $B)?>($($a),*)?;
        $f::<mode::Up $(, $B)?>($($a),*)?;
        $f::<mode::Down $(, $B)?>($($a),*)?;
        $f::<mode::HalfEven $(, $B)?>($($a),*)?;
        $f::<mode::HalfAway $(, $B)?>($($a),*)
    }};
}

fn prim_all(base: u32, integer: &BigInt, fract: &BigInt, k: usize) -> R {
    match base {
        2 => all_modes!(prim::<2>(integer, fract, k)),
        3 => all_modes!(prim::<3>(integer, fract, k)),
        10 => all_modes!(prim::<10>(integer, fract, k)),
        _ => all_modes!(prim::<16>(integer, fract, k)),
    }
}

/// exhaustive grid: bases 2,3,10,16 x digit counts 1..3 x integer -4..4, all fraction numerators
fn grid_slices() -> Vec<(u32, usize, i64)> {
    let mut v = vec![];
    for &b in &[2u32, 3, 10, 16] {
        for k in 1..=3usize {
            for i in -4..=4i64 {
                v.push((b, k, i));
            }
        }
    }
    v
}

fn float_ops<Rm: ModeTag, const B: Word>(m: &mut Mon, r: &mut Rng) {
    let base = B as u32;
    let p = match r.below(7) {
        0 => 1,
        1 => 2,
        2 => 30 + r.usize(60),
        _ => 1 + r.usize(30),
    };
    let d = 1 + r.usize(p);
    let bb = BigUint::from(base);
    // forced exponent for the structured significands below
    let mut forced_e: Option<i64> = None;
    let smag = match r.below(9) {
        6 | 7 if d >= 2 => {
            // k + tiny: an integer part of one digit followed by zeros and a tiny tail (estimates of the digit
            // count / log2 cannot tell such a value from the integer below it)
            forced_e = Some(-(d as i64 - 1));
            let cand = Pow::pow(&bb, d - 1) * BigUint::from(1 + r.below(base as u64 - 1)) + BigUint::from(1 + r.below(3));
            if cand >= Pow::pow(&bb, d) {
                Pow::pow(&bb, d - 1) + 1u32
            } else {
                cand
            }
        }
        8 if d >= 3 => {
            // integer part, then a fraction of k digits sitting on / next to one half: floor(B^k / 2) + {-1, 0, 1}
            // (the closest value below one half in odd bases, the exact tie in even bases)
            let k = 1 + r.usize(d - 1);
            forced_e = Some(-(k as i64));
            let bk = Pow::pow(&bb, k);
            let half = &bk / 2u32;
            let tail = match r.below(3) {
                0 if half.bits() > 1 => &half - 1u32,
                1 => &half + 1u32,
                _ => half,
            };
            let ip = nat(&[r.u64()]) % Pow::pow(&bb, d - k);
            ip * bk + tail
        }
        0 => Pow::pow(&bb, d) - 1u32,
        1 => Pow::pow(&bb, d - 1),
        2 => {
            // digits "5000" style: exactly half patterns in even bases
            (Pow::pow(&bb, d) / 2u32).max(BigUint::one())
        }
        _ => {
            let lo = Pow::pow(&bb, d - 1);
            let span = Pow::pow(&bb, d) - &lo;
            lo + nat(&[r.u64(), r.u64(), r.u64()]) % span
        }
    };
    let neg = r.bool();
    // exponent classes: integer, point inside the digits, |x| < 1, |x| < 1/B, far below
    let e: i64 = match r.below(8) {
        _ if forced_e.is_some() => forced_e.unwrap(),
        0 => r.range(0, 5),
        1 | 2 => -(r.range(1, d as i64)),
        3 => -(d as i64),
        4 => -(d as i64) - 1,
        5 => -(d as i64) - r.range(2, 4),
        6 => -(d as i64) - r.range(5, 60),
        _ => r.range(-40, 10),
    };
    let s = BigInt::from(smag.clone()) * if neg { -1 } else { 1 };
    let x = q_of_parts(&s, e, base);
    let f = FBig::<Rm, B>::from_parts(ibig_of_int(&s), e as isize).with_precision(p).value();
    // with_precision(p) with d <= p is exact
    let cls = if e >= 0 {
        "int"
    } else if -e < d as i64 {
        "inside"
    } else if -e == d as i64 {
        "lt1"
    } else if -e == d as i64 + 1 {
        "lt1/B"
    } else {
        "tiny"
    };
    let cell = format!("{}/b{}/{}", Rm::M.name(), base, cls);
    let h = dvh::gen::hash_limbs((e as u64) << 20 ^ (p as u64) << 40 ^ (neg as u64) << 63 ^ (base as u64) << 50, &limbs_of_nat(&smag));
    let desc = || format!("float_round mode={} base={} p={} x={}*{}^{}", Rm::M.name(), base, p, s, base, e);
    m.check("float_round", &cell, Some(h), &desc, || {
        ensure!(q_of_repr(f.repr()) == x, "setup", "operand construction changed the value");
        let val = |v: &FBig<Rm, B>| q_of_repr(v.repr());
        let fl = BigRational::from_integer(x.floor().to_integer());
        let ce = BigRational::from_integer(x.ceil().to_integer());
        let tr = BigRational::from_integer(x.trunc().to_integer());
        let rd = BigRational::from_integer(round_units(&x, Mode::HalfAway));
        let g = catch(|| f.trunc()).or_else(|p| fail("unexpected_panic", format!("trunc: {}", p)))?;
        ensure!(val(&g) == tr, "value", "trunc = {} want {}", g.repr().significand(), tr);
        let g = catch(|| f.floor()).or_else(|p| fail("unexpected_panic", format!("floor: {}", p)))?;
        ensure!(val(&g) == fl, "value", "floor = {}*{}^{} want {}", g.repr().significand(), base, g.repr().exponent(), fl);
        let g = catch(|| f.ceil()).or_else(|p| fail("unexpected_panic", format!("ceil: {}", p)))?;
        ensure!(val(&g) == ce, "value", "ceil = {}*{}^{} want {}", g.repr().significand(), base, g.repr().exponent(), ce);
        let g = catch(|| f.round()).or_else(|p| fail("unexpected_panic", format!("round: {}", p)))?;
        ensure!(val(&g) == rd, "value", "round = {}*{}^{} want {} (ties away from zero)", g.repr().significand(), base, g.repr().exponent(), rd);
        let fr = catch(|| f.fract()).or_else(|p| fail("unexpected_panic", format!("fract: {}", p)))?;
        ensure!(val(&fr) == &x - &tr, "value", "fract = {}*{}^{} want x - trunc(x)", fr.repr().significand(), base, fr.repr().exponent());
        let (t2, f2) = catch(|| f.clone().split_at_point()).or_else(|p| fail("unexpected_panic", format!("split_at_point: {}", p)))?;
        ensure!(val(&t2) == tr && val(&f2) == &x - &tr, "value", "split_at_point = ({}, {}*{}^{})", t2.repr().significand(), f2.repr().significand(), base, f2.repr().exponent());
        ensure!(val(&t2) + val(&f2) == x, "value", "trunc + fract != x");
        // to_int with the mode of the type
        let ti = catch(|| f.to_int()).or_else(|p| fail("unexpected_panic", format!("to_int: {}", p)))?;
        let want = round_units(&x, Rm::M);
        let (tv, flag) = (int_of(match &ti { Approximation::Exact(v) => v, Approximation::Inexact(v, _) => v }), Flag::of(&ti));
        ensure!(tv == want, "value", "to_int = {} want {} under mode {}", tv, want, Rm::M.name());
        let tq = BigRational::from_integer(tv.clone());
        match flag {
            Flag::Exact => ensure!(tq == x, "flag", "to_int flagged Exact for a non-integer"),
            Flag::AddOne => ensure!(tq > x, "flag", "to_int flagged AddOne but result <= x"),
            Flag::SubOne => ensure!(tq < x, "flag", "to_int flagged SubOne but result >= x"),
            Flag::NoOp => ensure!(tq != x, "flag", "to_int flagged Inexact(NoOp) for an integer value"),
        }
        // Repr::to_int truncates
        let ri = catch(|| f.repr().to_int()).or_else(|p| fail("unexpected_panic", format!("Repr::to_int: {}", p)))?;
        let (rv, rflag) = (int_of(match &ri { Approximation::Exact(v) => v, Approximation::Inexact(v, _) => v }), Flag::of(&ri));
        ensure!(BigRational::from_integer(rv.clone()) == tr, "value", "Repr::to_int = {} want trunc = {}", rv, tr);
        ensure!((rflag == Flag::Exact) == x.is_integer(), "flag", "Repr::to_int flag {:?} for x integer = {}", rflag, x.is_integer());
        // with_precision to fewer digits obeys the rounding contract of the mode
        let k = 1 + (h as usize % p.max(1));
        let wp = catch(|| f.clone().with_precision(k)).or_else(|p| fail("unexpected_panic", format!("with_precision: {}", p)))?;
        let wflag = Flag::of(&wp);
        let wv = wp.value();
        ensure!(wv.precision() == k, "precision", "with_precision({}) has precision {}", k, wv.precision());
        check_contract(&x, &q_of_repr(wv.repr()), wflag, digits(&int_of(wv.repr().significand()), base), base, k, Rm::M)
            .or_else(|(kind, dd)| fail(kind, format!("with_precision({}): {} (result {}*{}^{}, flag {:?})", k, dd, wv.repr().significand(), base, wv.repr().exponent(), wflag)))?;
        // and, for a p-digit result, it is the uniquely determined neighbour
        let (u, ue) = qref::round_ref(&x, base, k, Rm::M);
        ensure!(q_of_repr(wv.repr()) == q_of_parts(&u, ue, base), "value", "with_precision({}) = {}*{}^{} but the correctly rounded value is {}*{}^{}", k, wv.repr().significand(), base, wv.repr().exponent(), u, base, ue);
        // the same from an unlimited-precision (0) copy of the value, and going to unlimited precision is exact
        let unl = match f.clone().with_precision(0) {
            Approximation::Exact(v) => v,
            Approximation::Inexact(v, _) => return fail("flag", format!("with_precision(0) reported Inexact ({}*{}^{})", v.repr().significand(), base, v.repr().exponent())),
        };
        ensure!(unl.precision() == 0 && q_of_repr(unl.repr()) == x, "value", "with_precision(0) changed the value or has precision {}", unl.precision());
        let wp = catch(|| unl.clone().with_precision(k)).or_else(|p| fail("unexpected_panic", format!("with_precision from unlimited: {}", p)))?;
        let wflag2 = Flag::of(&wp);
        let wv2 = wp.value();
        ensure!(wv2.precision() == k, "precision", "with_precision({}) of an unlimited-precision value has precision {}", k, wv2.precision());
        // the rounding functions do not depend on the precision the value carries: unlimited and excess precision
        for (what, g) in [("unlimited", unl.clone()), ("excess", f.clone().with_precision(p + 7).value())] {
            let r4 = catch(|| (g.trunc(), g.floor(), g.ceil(), g.round(), g.fract(), g.to_int().value())).or_else(|pn| fail("unexpected_panic", format!("rounding a value of {} precision: {}", what, pn)))?;
            ensure!(val(&r4.0) == tr && val(&r4.1) == fl && val(&r4.2) == ce && val(&r4.3) == rd && val(&r4.4) == &x - &tr && int_of(&r4.5) == want, "value",
                "at {} precision: trunc {} floor {} ceil {} round {} to_int {} (want {} {} {} {} {})", what, r4.0.repr().significand(), r4.1.repr().significand(), r4.2.repr().significand(), r4.3.repr().significand(), r4.5, tr, fl, ce, rd, want);
        }
        ensure!(q_of_repr(wv2.repr()) == q_of_parts(&u, ue, base) && wflag2 == wflag, "value", "with_precision({}) of an unlimited-precision value = {}*{}^{} ({:?}) but from precision {} it is {}*{}^{} ({:?})", k, wv2.repr().significand(), base, wv2.repr().exponent(), wflag2, p, u, base, ue, wflag);
        Ok(())
    });
    let _ = (Repr::<B>::zero(), IBig::ZERO);
}

fn case(m: &mut Mon, r: &mut Rng, idx: u64) {
    let slices = grid_slices();
    if (idx as usize) < slices.len() {
        let (b, k, i) = slices[idx as usize];
        let lim = (b as i64).pow(k as u32);
        m.check("prim_grid_exhaustive", &format!("b{}k{}", b, k), Some(idx), &|| format!("round_fract grid base={} digits={} integer={} all fractions, 6 modes", b, k, i), || {
            let integer = BigInt::from(i);
            for f in (-lim + 1)..lim {
                prim_all(b, &integer, &BigInt::from(f), k)?;
            }
            // round_ratio over the same fractions with both denominator signs
            for f in (-lim + 1)..lim {
                all_modes!(prim_ratio::<>(&integer, &BigInt::from(f), &BigInt::from(lim)))?;
                all_modes!(prim_ratio::<>(&integer, &BigInt::from(-f), &BigInt::from(-lim)))?;
            }
            Ok(())
        });
        m.note_n("prim_grid_rows", ((2 * lim - 1) * 6 * 3) as u64);
        return;
    }
    match r.below(10) {
        0 | 1 => {
            // random large primitives incl. huge precisions around the half point (log2 shortcut in round_fract)
            let base = *r.pick(&[2u32, 3, 10, 16]);
            let k = match r.below(120) {
                0..=19 => 1 + r.usize(5),
                20..=29 => 50 + r.usize(200),
                30 => *r.pick(&[1000usize, 3000]),
                31 if m.thorough() => *r.pick(&[5000usize, 20000]),
                _ => 1 + r.usize(40),
            };
            let bk = Pow::pow(&BigInt::from(base), k);
            let half: BigInt = &bk / 2i32;
            let fract = match r.below(6) {
                0 => half.clone(),
                1 => &half + 1,
                2 => &half - 1,
                3 => &bk - 1,
                4 => BigInt::one(),
                _ => BigInt::from(nat(&(0..(bk.bits() / 64 + 2)).map(|_| r.u64()).collect::<Vec<_>>())) % &bk,
            };
            let fract = if fract >= bk { &bk - 1 } else { fract };
            let fract = if r.bool() { -fract } else { fract };
            let integer = match r.below(4) {
                0 => BigInt::zero(),
                1 => BigInt::from(r.range(-3, 3)),
                _ => int(r.bool(), &dvh::gen::small_mag(r)),
            };
            // sign convention: the fraction carries the sign of the value when the integer is non-zero
            let fract = if !integer.is_zero() && (fract.is_negative() != integer.is_negative()) { -fract } else { fract };
            let d = || format!("round_fract base={} k={} integer={} fract={}", base, k, show_int(&integer), show_int(&fract));
            let h = dvh::gen::hash_limbs(dvh::gen::hash_limbs(k as u64 ^ (base as u64) << 32, &limbs_of_nat(integer.magnitude())), &limbs_of_nat(fract.magnitude()));
            m.check("prim_random", &format!("b{}/{}", base, if k >= 1000 { "huge" } else { "small" }), Some(h), &d, || prim_all(base, &integer, &fract, k));
        }
        2 => {
            let integer = int(r.bool(), &dvh::gen::small_mag(r));
            let den = int(r.bool(), &dvh::gen::small_mag(r));
            if den.is_zero() {
                return;
            }
            let num = match r.below(4) {
                0 => &den / 2i32,
                1 => &den / 2i32 + 1i32,
                2 => BigInt::one(),
                _ => int(r.bool(), &dvh::gen::small_mag(r)) % &den,
            };
            let num = if num.magnitude() >= den.magnitude() { BigInt::zero() } else { num };
            // num/den must carry the sign of the value when integer != 0
            let frac_neg = num.is_negative() != den.is_negative();
            let num = if !integer.is_zero() && !num.is_zero() && (frac_neg != integer.is_negative()) { -num } else { num };
            let d = || format!("round_ratio integer={} num={} den={}", show_int(&integer), show_int(&num), show_int(&den));
            let h = dvh::gen::hash_limbs(dvh::gen::hash_limbs(7, &limbs_of_nat(num.magnitude())), &limbs_of_nat(den.magnitude()));
            m.check("prim_ratio", if den.is_negative() { "den-" } else { "den+" }, Some(h), &d, || all_modes!(prim_ratio::<>(&integer, &num, &den)));
        }
        3 | 4 => {
            // rationals
            let (n, dn) = (int(r.bool(), &dvh::gen::small_mag(r)), nat(&dvh::gen::small_mag(r)) + 1u32);
            let (n, dn) = match r.below(4) {
                0 => {
                    // exact halves
                    let k = BigInt::from(nat(&dvh::gen::small_mag(r)));
                    (k * 2 + 1, BigUint::from(2u32))
                }
                1 => (n.clone() * BigInt::from(dn.clone()), dn), // integer valued
                _ => (n, dn),
            };
            let n = if r.bool() { -n } else { n };
            let x = BigRational::new(n.clone(), BigInt::from(dn.clone()));
            let d = || format!("ratio_round x={}/{}", show_int(&n), show_nat(&dn));
            let h = dvh::gen::hash_limbs(dvh::gen::hash_limbs(3, &limbs_of_nat(n.magnitude())), &limbs_of_nat(&dn));
            m.check("ratio_round", "", Some(h), &d, || {
                let q = RBig::from_parts(ibig_of_int(&n), ubig_of_nat(&dn));
                let rx = Relaxed::from_parts(ibig_of_int(&n), ubig_of_nat(&dn));
                let tr = x.trunc().to_integer();
                let want_round = round_units(&x, Mode::HalfAway);
                ensure!(int_of(&q.trunc()) == tr && int_of(&rx.trunc()) == tr, "value", "trunc = {} / {} want {}", q.trunc(), rx.trunc(), tr);
                ensure!(int_of(&q.floor()) == x.floor().to_integer() && int_of(&rx.floor()) == x.floor().to_integer(), "value", "floor = {} / {}", q.floor(), rx.floor());
                ensure!(int_of(&q.ceil()) == x.ceil().to_integer() && int_of(&rx.ceil()) == x.ceil().to_integer(), "value", "ceil = {} / {}", q.ceil(), rx.ceil());
                ensure!(int_of(&q.round()) == want_round && int_of(&rx.round()) == want_round, "value", "round = {} / {} want {}", q.round(), rx.round(), want_round);
                let fr = &x - BigRational::from_integer(tr.clone());
                ensure!(q_of_rbig(&q.fract()) == fr && q_of_relaxed(&rx.fract()) == fr, "value", "fract = {} / {}", q.fract(), rx.fract());
                let (t, f) = q.clone().split_at_point();
                ensure!(int_of(&t) == tr && q_of_rbig(&f) == fr, "value", "split_at_point = ({}, {})", t, f);
                let g = num_integer::Integer::gcd(int_of(f.numerator()).magnitude(), &nat_of(f.denominator()));
                ensure!(g.is_one() || int_of(f.numerator()).is_zero(), "canonical", "fract() of an RBig is not in lowest terms: {}", f);
                let (t, f) = rx.clone().split_at_point();
                ensure!(int_of(&t) == tr && q_of_relaxed(&f) == fr, "value", "relaxed split_at_point = ({}, {})", t, f);
                Ok(())
            });
        }
        _ => {
            // floats, round-robin over modes and bases
            let mi = r.below(6);
            macro_rules! go {
                ($B:literal) => {
                    match mi {
                        0 => float_ops::<mode::Zero, $B>(m, r),
                        1 => float_ops::<mode::Away, $B>(m, r),
                        2 => float_ops::<mode::Up, $B>(m, r),
                        3 => float_ops::<mode::Down, $B>(m, r),
                        4 => float_ops::<mode::HalfEven, $B>(m, r),
                        _ => float_ops::<mode::HalfAway, $B>(m, r),
                    }
                };
            }
            match r.below(4) {
                0 => go!(2),
                1 => go!(10),
                2 => go!(3),
                _ => go!(16),
            }
        }
    }
}

fn main() {
    mon::main(Spec {
        prop: "C10",
        quick_cases: 300_000,
        thorough_cases: 12_000_000,
        rule: "Primitives: exhaustive grid (bases 2,3,10,16 x 1..3 fraction digits x integer -4..4 x every fraction numerator x 6 modes, for round_fract and round_ratio with both denominator signs) in the first 108 cases, then random triples incl. fractions at/around one half with precisions up to 20000 digits. Floats (6 modes x bases 2,3,10,16): significands all-max / 10..0 / half patterns / random, exponents making x an integer, splitting inside the digits, |x| < 1, |x| < 1/B and far below; trunc/floor/ceil/round/fract/split_at_point/to_int/Repr::to_int/with_precision judged against exact rationals and the textbook definition of the six modes. Rationals: halves, integers, random; RBig and Relaxed.",
        assumptions: &["FBig::round and RBig::round break ties away from zero (documented)", "to_int flags: AddOne = result above x, SubOne = below"],
        required: &[("prim_grid_exhaustive", false), ("prim_random", false), ("prim_ratio", false), ("ratio_round", false), ("float_round/", false)],
        case,
        selftest: Some(qref::selftest),
        panic_finding: None,
    });
}
