//! C14 — cross-type numeric comparison (NumOrd, AbsOrd) and hashing (NumHash) agree with exact values.
use dashu_base::AbsOrd;
use dashu_float::{round::mode, FBig};
use dashu_int::{IBig, UBig};
use dashu_ratio::{RBig, Relaxed};
use dvh::conv::*;
use dvh::ensure;
use dvh::gen;
use dvh::mon::{self, catch, fail, Mon, Spec};
use dvh::rng::Rng;
use num_bigint::{BigInt, BigUint};
use num_order::{NumHash, NumOrd};
use num_rational::BigRational;
use num_traits::{One, Pow, Signed, ToPrimitive, Zero};
use std::cmp::Ordering;

include!("../inc/c14_dispatch.rs");

/// exact extended real
#[derive(Clone, Debug, PartialEq)]
enum Ext {
    NegInf,
    Fin(BigRational),
    PosInf,
    NaN,
}

fn ext_cmp(a: &Ext, b: &Ext) -> Option<Ordering> {
    use Ext::*;
    match (a, b) {
        (NaN, _) | (_, NaN) => None,
        (NegInf, NegInf) | (PosInf, PosInf) => Some(Ordering::Equal),
        (NegInf, _) | (_, PosInf) => Some(Ordering::Less),
        (PosInf, _) | (_, NegInf) => Some(Ordering::Greater),
        (Fin(x), Fin(y)) => Some(x.cmp(y)),
    }
}

/// all representations of an exact value that can hold it exactly
fn reps(x: &Ext, r: &mut Rng) -> Vec<V> {
    let mut out = vec![];
    match x {
        Ext::NaN => {
            out.push(V::F32(f32::NAN));
            out.push(V::F64(f64::NAN));
        }
        Ext::PosInf => {
            out.push(V::F32(f32::INFINITY));
            out.push(V::F64(f64::INFINITY));
            out.push(V::FB2(FBig::INFINITY));
            out.push(V::FB10(FBig::INFINITY));
        }
        Ext::NegInf => {
            out.push(V::F32(f32::NEG_INFINITY));
            out.push(V::F64(f64::NEG_INFINITY));
            out.push(V::FB2(FBig::NEG_INFINITY));
            out.push(V::FB3(FBig::NEG_INFINITY));
        }
        Ext::Fin(q) => {
            let (n, d) = (q.numer().clone(), q.denom().magnitude().clone());
            // rationals always
            out.push(V::RQ(RBig::from_parts(ibig_of_int(&n), ubig_of_nat(&d))));
            // the common factor of the non-reduced twin: small, or the modulus of the hash (2^127 - 1) and its square,
            // or the Mersenne number next to it
            let k = match r.below(10) {
                0 => BigUint::from(i128::MAX as u128),
                1 => BigUint::from(i128::MAX as u128) * BigUint::from(i128::MAX as u128),
                2 => (BigUint::from(1u8) << 127usize) + 1u32,
                _ => BigUint::from(1 + r.below(6)),
            };
            out.push(V::RX(Relaxed::from_parts(ibig_of_int(&(&n * BigInt::from(k.clone()))), ubig_of_nat(&(&d * &k)))));
            if d.is_one() {
                out.push(V::I(ibig_of_int(&n)));
                if !n.is_negative() {
                    out.push(V::U(ubig_of_nat(n.magnitude())));
                }
                if let Some(v) = n.to_u8() {
                    out.push(V::U8(v));
                }
                if let Some(v) = n.to_u64() {
                    out.push(V::U64(v));
                }
                if let Some(v) = n.to_u128() {
                    out.push(V::U128(v));
                }
                if let Some(v) = n.to_i8() {
                    out.push(V::I8(v));
                }
                if let Some(v) = n.to_i64() {
                    out.push(V::I64(v));
                }
                if let Some(v) = n.to_i128() {
                    out.push(V::I128(v));
                }
            }
            // primitive floats when exactly representable
            if let Some(f) = q.to_f64() {
                if f.is_finite() && BigRational::from_float(f).as_ref() == Some(q) {
                    out.push(V::F64(f));
                    if q.is_zero() && r.bool() {
                        out.push(V::F64(-0.0));
                    }
                    let g = f as f32;
                    if g.is_finite() && (g as f64) == f {
                        out.push(V::F32(g));
                    }
                }
            }
            // floats of base 2 / 10 / 3 when the denominator is a power of the base
            let try_base = |base: u32| -> Option<(BigInt, i64)> {
                let mut dd = d.clone();
                let mut e = 0i64;
                let b = BigUint::from(base);
                while !dd.is_one() {
                    if !(&dd % &b).is_zero() {
                        // maybe d divides a power of the base (e.g. d = 5, base 10): scale the numerator
                        return None;
                    }
                    dd /= &b;
                    e -= 1;
                }
                Some((n.clone(), e))
            };
            // a third of the float embeddings carry unlimited precision (0), a third more precision than digits:
            // the comparison shortcuts that look at the precision must not depend on it
            if let Some((s, e)) = try_base(2) {
                let f = FBig::from_parts(ibig_of_int(&s), e as isize);
                out.push(V::FB2(match r.below(3) {
                    0 => f.with_precision(0).value(),
                    1 => { let p = f.precision() + 1 + r.usize(40); f.with_precision(p).value() }
                    _ => f,
                }));
            }
            if let Some((s, e)) = try_base(10) {
                let f = FBig::from_parts(ibig_of_int(&s), e as isize);
                out.push(V::FB10(match r.below(3) {
                    0 => f.with_precision(0).value(),
                    1 => { let p = f.precision() + 1 + r.usize(40); f.with_precision(p).value() }
                    _ => f,
                }));
            } else {
                // d = 2^a 5^b: representable in base 10 after scaling
                let mut dd = d.clone();
                let (mut a, mut b5) = (0u32, 0u32);
                while (&dd % 2u32).is_zero() {
                    dd /= 2u32;
                    a += 1;
                }
                while (&dd % 5u32).is_zero() {
                    dd /= 5u32;
                    b5 += 1;
                }
                if dd.is_one() && a.max(b5) < 400 {
                    let k = a.max(b5);
                    let s = &n * Pow::pow(&BigInt::from(2), k - a) * Pow::pow(&BigInt::from(5), k - b5);
                    out.push(V::FB10(FBig::from_parts(ibig_of_int(&s), -(k as isize))));
                }
            }
            if let Some((s, e)) = try_base(3) {
                out.push(V::FB3(FBig::from_parts(ibig_of_int(&s), e as isize)));
            }
        }
    }
    out
}

/// value families sitting on the boundaries of the estimate / exact paths
fn value(m: &Mon, r: &mut Rng) -> Ext {
    let fin = |q: BigRational| Ext::Fin(q);
    match r.below(24) {
        0 => Ext::NaN,
        1 => Ext::PosInf,
        2 => Ext::NegInf,
        3 => fin(BigRational::zero()),
        4 | 5 => fin(BigRational::from_integer(BigInt::from(r.range(-300, 300)))),
        6 | 7 => fin(BigRational::from_integer(int(r.bool(), &gen::small_mag(r)))),
        8 => {
            // dyadic: f32/f64 representable
            let mant = BigInt::from(r.u64() >> r.below(64)) * if r.bool() { -1 } else { 1 };
            fin(q_of_parts(&mant, r.range(-1100, 1000), 2))
        }
        9 => {
            let mant = BigInt::from(r.u32() >> 8) * if r.bool() { -1 } else { 1 };
            fin(q_of_parts(&mant, r.range(-160, 110), 2))
        }
        10 => fin(q_of_parts(&int(r.bool(), &gen::small_mag(r)), r.range(-300, 300), 2)),
        11 | 12 => fin(q_of_parts(&int(r.bool(), &gen::small_mag(r)), r.range(-60, 60), 10)),
        13 => fin(q_of_parts(&int(r.bool(), &gen::small_mag(r)), r.range(-60, 60), 3)),
        14 => {
            // huge exponents with tiny significands
            let lim = if m.thorough() { 100_000 } else { 8_000 };
            let base = *r.pick(&[2u32, 10, 3]);
            fin(q_of_parts(&BigInt::from(r.range(-9, 9)), r.range(-lim, lim), base))
        }
        15 => fin(BigRational::from_float(f64::from_bits(r.u64() & 0x800f_ffff_ffff_ffff)).unwrap()), // subnormal f64
        16 => fin(BigRational::from_float(f32::from_bits(r.u32() & 0x807f_ffff) as f64).unwrap()),  // subnormal f32
        17 => fin(BigRational::from_integer(BigInt::from(1) << r.usize(200)) * if r.bool() { -BigRational::one() } else { BigRational::one() }),
        _ => fin(BigRational::new(int(r.bool(), &gen::small_mag(r)), BigInt::from(nat(&gen::small_mag(r)) + 1u32))),
    }
}

fn perturb(x: &Ext, r: &mut Rng) -> Ext {
    match x {
        Ext::Fin(q) => {
            let d = match r.below(6) {
                0 => BigRational::zero(),
                1 => BigRational::one(),
                2 => -BigRational::one(),
                3 => q.abs() / BigRational::from_integer(BigInt::from(1u64 << (20 + r.below(40)))), // around the f32 log2 estimate resolution
                4 => BigRational::new(BigInt::one(), q.denom().clone()) * if r.bool() { -BigRational::one() } else { BigRational::one() }, // last unit
                _ => -(q + q),
            };
            // keep the perturbed value representable somewhere: snap to a dyadic with the same denominator when possible
            Ext::Fin(q + d)
        }
        other => other.clone(),
    }
}

/// the value as a float of base B, when B^k * q is an integer for some k <= 600
fn in_base<const B: dashu_int::Word>(q: &BigRational) -> Option<FBig<mode::Zero, B>> {
    let b = BigInt::from(B);
    let d = q.denom().clone();
    let mut scale = BigInt::one();
    let mut k = 0isize;
    while !(&scale % &d).is_zero() {
        if k >= 600 {
            return None;
        }
        scale *= &b;
        k += 1;
    }
    Some(FBig::from_parts(ibig_of_int(&(q.numer() * (&scale / &d))), -k))
}

fn hash_of<T: NumHash>(x: &T) -> u64 {
    use std::hash::Hasher;
    let mut h = std::collections::hash_map::DefaultHasher::new();
    x.num_hash(&mut h);
    h.finish()
}

fn case(m: &mut Mon, r: &mut Rng, _idx: u64) {
    let x = value(m, r);
    let y = match r.below(4) {
        0 => x.clone(),
        1 | 2 => perturb(&x, r),
        _ => value(m, r),
    };
    let (rx, ry) = (reps(&x, r), reps(&y, r));
    let want = ext_cmp(&x, &y);
    let show = |e: &Ext| match e {
        Ext::Fin(q) => show_q(q),
        o => format!("{:?}", o),
    };
    let d = || format!("x={} y={} ({} x {} representations)", show(&x), show(&y), rx.len(), ry.len());
    let h = dvh::rng::hash_str(&format!("{}|{}", show(&x), show(&y)));
    let mut pairs = 0u64;
    m.check("num_ord", if want.is_none() { "nan" } else if want == Some(Ordering::Equal) { "equal" } else { "ordered" }, Some(h), &d, || {
        for a in &rx {
            for b in &ry {
                pairs += 1;
                let got = catch(|| num_partial_cmp(a, b)).or_else(|p| fail("unexpected_panic", format!("{}.num_partial_cmp({}): {}", a.tname(), b.tname(), p)))?;
                ensure!(got == want, "order", "{:?}.num_partial_cmp({:?}) = {:?} but the exact values compare {:?}", a, b, got, want);
                let eq = catch(|| num_eq(a, b)).or_else(|p| fail("unexpected_panic", format!("{}.num_eq({}): {}", a.tname(), b.tname(), p)))?;
                ensure!(eq == (want == Some(Ordering::Equal)), "order", "{:?}.num_eq({:?}) = {}", a, b, eq);
            }
        }
        Ok(())
    });
    m.note_n("type_pairs_compared", pairs);
    // hashes: every representation of the same value hashes alike
    if !matches!(x, Ext::NaN) && rx.len() >= 2 {
        m.check("num_hash", "", Some(h ^ 1), &d, || {
            let h0 = rx[0].num_hash_value();
            for a in &rx[1..] {
                ensure!(a.num_hash_value() == h0, "hash", "{:?} and {:?} are numerically equal but hash differently", rx[0], a);
            }
            Ok(())
        });
    }
    // floats of the other bases (powers of two above 2, bases with a repeated prime factor, 36): the generic NumHash /
    // NumOrd code has base-specific shortcuts. Judged against the rational representation of the same value.
    if let (Ext::Fin(qx), Ext::Fin(qy)) = (&x, &y) {
        if qx.denom().bits() < 4000 && qy.denom().bits() < 4000 {
            m.check("other_bases", "", Some(h ^ 3), &d, || {
                let (rqx, rqy) = (RBig::from_parts(ibig_of_int(qx.numer()), ubig_of_nat(qx.denom().magnitude())), RBig::from_parts(ibig_of_int(qy.numer()), ubig_of_nat(qy.denom().magnitude())));
                let h0 = hash_of(&rqx);
                let mut seen = 0u64;
                macro_rules! base {
                    ($B:literal) => {
                        if let Some(f) = in_base::<$B>(qx) {
                            seen += 1;
                            let hf = catch(|| hash_of(&f)).or_else(|p| fail("unexpected_panic", format!("NumHash of a base-{} float {:?}: {}", $B, f.repr(), p)))?;
                            ensure!(hf == h0, "hash", "base-{} float {:?} and the rational {} are numerically equal but hash differently", $B, f.repr(), rqx);
                            ensure!(hash_of(f.repr()) == h0, "hash", "base-{} Repr {:?} and the rational {} hash differently", $B, f.repr(), rqx);
                            ensure!(f.num_partial_cmp(&rqx) == Some(Ordering::Equal) && rqx.num_eq(&f), "order", "base-{} float {:?} does not compare equal to the rational {}", $B, f.repr(), rqx);
                            let got = f.num_partial_cmp(&rqy);
                            ensure!(got == want, "order", "base-{} float {:?}.num_partial_cmp({}) = {:?} but the exact values compare {:?}", $B, f.repr(), rqy, got, want);
                            if let Some(g) = in_base::<$B>(qy) {
                                ensure!(f.partial_cmp(&g) == want && (f == g) == (want == Some(Ordering::Equal)), "order", "base-{} floats {:?} and {:?} compare {:?}, exact {:?}", $B, f.repr(), g.repr(), f.partial_cmp(&g), want);
                            }
                        }
                    };
                }
                base!(4);
                base!(8);
                base!(16);
                base!(32);
                base!(64);
                base!(9);
                base!(36);
                base!(6);
                let _ = seen;
                Ok(())
            });
        }
    }
    // AbsOrd between big types
    if let (Ext::Fin(qx), Ext::Fin(qy)) = (&x, &y) {
        let want_abs = qx.abs().cmp(&qy.abs());
        m.check("abs_ord", "", Some(h ^ 2), &d, || {
            macro_rules! abs_pair {
                ($a:expr, $b:expr) => {{
                    let got = $a.abs_cmp($b);
                    ensure!(got == want_abs, "abs_order", "{:?}.abs_cmp({:?}) = {:?} want {:?}", $a, $b, got, want_abs);
                }};
            }
            for a in &rx {
                for b in &ry {
                    match (a, b) {
                        (V::U(p), V::U(q)) => abs_pair!(p, q),
                        (V::I(p), V::I(q)) => abs_pair!(p, q),
                        (V::U(p), V::I(q)) => abs_pair!(p, q),
                        (V::I(p), V::U(q)) => abs_pair!(p, q),
                        (V::FB2(p), V::FB2(q)) => abs_pair!(p, q),
                        (V::FB10(p), V::FB10(q)) => abs_pair!(p, q),
                        (V::FB2(p), V::U(q)) => abs_pair!(p, q),
                        (V::FB10(p), V::I(q)) => abs_pair!(p, q),
                        (V::U(p), V::FB10(q)) => abs_pair!(p, q),
                        (V::I(p), V::FB2(q)) => abs_pair!(p, q),
                        (V::RQ(p), V::RQ(q)) => abs_pair!(p, q),
                        (V::RX(p), V::RX(q)) => abs_pair!(p, q),
                        (V::RQ(p), V::RX(q)) => abs_pair!(p, q),
                        (V::RQ(p), V::U(q)) => abs_pair!(p, q),
                        (V::RX(p), V::I(q)) => abs_pair!(p, q),
                        (V::I(p), V::RQ(q)) => abs_pair!(p, q),
                        (V::U(p), V::RX(q)) => abs_pair!(p, q),
                        _ => {}
                    }
                }
            }
            Ok(())
        });
    }
    let _ = (IBig::ZERO, UBig::ZERO);
}

fn main() {
    mon::main(Spec {
        prop: "C14",
        quick_cases: 150_000,
        thorough_cases: 5_000_000,
        rule: "An exact extended real (integers, dyadic / decimal / ternary scaled values, general fractions, huge exponents with tiny significands up to +-8000 (thorough +-100000) digits, f32/f64 subnormals, powers of two, zero, +-infinity, NaN) is embedded into every type that can hold it exactly (UBig, IBig, u8/u64/u128, i8/i64/i128, f32, f64 incl. -0.0, FBig base 2/10/3 with different modes, RBig, non-reduced Relaxed); a second value is the same, a perturbation by one unit / the last bit / around the f32 log2-estimate resolution, or independent. For every pair of representations (225 ordered type pairs) num_partial_cmp and num_eq must match the exact order (None with NaN), all representations of one value must have the same NumHash (which ties the big types to num-order's own primitive hashing), and AbsOrd between the big types must match the order of magnitudes. distinct = value pair.",
        assumptions: &["num-order's implementations for primitive pairs define the reference hash", "exact order of finite values from num-rational"],
        required: &[("num_ord/equal", false), ("num_ord/ordered", false), ("num_ord/nan", false), ("num_hash", false), ("abs_ord", false)],
        case,
        selftest: None,
        panic_finding: None,
    });
}
