//! C04 — rational arithmetic is exact, RBig stays in lowest terms, Relaxed equals RBig (histories).
use dashu_base::{Abs, DivEuclid, DivRemEuclid, Inverse, RemEuclid};
use dashu_int::{IBig, UBig};
use dashu_ratio::{RBig, Relaxed};
use dvh::conv::*;
use dvh::ensure;
use dvh::gen;
use dvh::layout;
use dvh::mon::{self, catch, fail, Mon, Spec, R};
use dvh::rng::Rng;
use num_bigint::{BigInt, BigUint};
use num_integer::Integer;
use num_rational::BigRational;
use num_traits::{One, Pow, Signed, Zero};

fn canonical(q: &RBig, what: &str) -> R {
    let (n, d) = (int_of(q.numerator()), nat_of(q.denominator()));
    layout::check_i(q.numerator()).or_else(|e| fail("layout", format!("{}: numerator {}", what, e)))?;
    layout::check_u(q.denominator()).or_else(|e| fail("layout", format!("{}: denominator {}", what, e)))?;
    ensure!(!d.is_zero(), "canonical", "{}: zero denominator", what);
    if n.is_zero() {
        ensure!(d.is_one(), "canonical", "{}: zero stored as 0/{}", what, show_nat(&d));
    } else {
        let g = n.magnitude().gcd(&d);
        ensure!(g.is_one(), "canonical", "{}: {}/{} has the common factor {}", what, show_int(&n), show_nat(&d), show_nat(&g));
    }
    Ok(())
}

fn comp(r: &mut Rng, m: &Mon) -> Vec<u64> {
    match r.below(10) {
        0 => vec![],
        1 => vec![1],
        2..=6 => gen::small_mag(r),
        _ => gen::mag(r, if m.thorough() { 120 } else { 30 }),
    }
}

/// a fresh rational whose parts share factors with an existing one (exercises the gcd-hint / cross cancellation paths)
fn fresh(r: &mut Rng, m: &Mon, like: Option<&BigRational>) -> BigRational {
    let mut n = int(r.bool(), &comp(r, m));
    let mut d = BigInt::from(nat(&comp(r, m)) + 1u32);
    if let Some(o) = like {
        match r.below(5) {
            0 => d *= o.denom(),                       // shared factor between denominators
            1 => n *= o.denom(),                       // cross factor
            2 => d *= o.numer().abs() + 1,
            3 => {
                n *= o.numer();
                d *= o.denom();
            }
            _ => {}
        }
    }
    match r.below(8) {
        0 => n = BigInt::zero(),
        1 => n = &d * BigInt::from(r.range(-3, 3)), // integer valued
        _ => {}
    }
    BigRational::new(n, d)
}

fn mk(q: &BigRational) -> (RBig, Relaxed) {
    let (n, d) = (ibig_of_int(q.numer()), ubig_of_nat(q.denom().magnitude()));
    (RBig::from_parts(n.clone(), d.clone()), Relaxed::from_parts(n, d))
}

fn case(m: &mut Mon, r: &mut Rng, idx: u64) {
    let steps = if m.thorough() { 120 } else { 60 };
    let npool = 8;
    let mut model: Vec<BigRational> = (0..npool).map(|_| fresh(r, m, None)).collect();
    let mut pool: Vec<(RBig, Relaxed)> = model.iter().map(mk).collect();
    let mut log: Vec<String> = vec![];
    let mut nsteps = 0u64;
    let mut failure: Option<mon::Fail> = None;
    for step in 0..steps {
        let (i, j, k) = (r.usize(npool), r.usize(npool), r.usize(npool));
        let op = r.below(24);
        let res: Result<Option<(String, BigRational, RBig, Relaxed)>, mon::Fail> = (|| {
            let (aq, ax) = pool[j].clone();
            let (bq, bx) = pool[k].clone();
            let (am, bm) = (model[j].clone(), model[k].clone());
            let byref = r.bool();
            let out = match op {
                0 | 1 => ("add", &am + &bm, if byref { &aq + &bq } else { aq.clone() + bq.clone() }, if byref { &ax + &bx } else { ax.clone() + bx.clone() }),
                2 | 3 => ("sub", &am - &bm, if byref { &aq - &bq } else { aq.clone() - bq.clone() }, if byref { &ax - &bx } else { ax.clone() - bx.clone() }),
                4 | 5 => {
                    if am.numer().bits() + bm.numer().bits() > 64 * 400 {
                        return Ok(None);
                    }
                    ("mul", &am * &bm, if byref { &aq * &bq } else { aq.clone() * bq.clone() }, if byref { &ax * &bx } else { ax.clone() * bx.clone() })
                }
                6 | 7 => {
                    if bm.is_zero() {
                        // division by zero must panic for both types
                        let p1 = catch(|| &aq / &bq);
                        let p2 = catch(|| &ax / &bx);
                        ensure!(p1.is_err() && p2.is_err(), "no_panic", "division by zero returned a value");
                        return Ok(None);
                    }
                    ("div", &am / &bm, if byref { &aq / &bq } else { aq.clone() / bq.clone() }, if byref { &ax / &bx } else { ax.clone() / bx.clone() })
                }
                8 => {
                    if bm.is_zero() {
                        let p1 = catch(|| &aq % &bq);
                        ensure!(p1.is_err(), "no_panic", "remainder by zero returned a value");
                        return Ok(None);
                    }
                    // % is the nearest remainder pinned by the test-suite: (a - r)/b integral and |r| <= |b|/2
                    let (rq, rx) = (&aq % &bq, &ax % &bx);
                    let rm = q_of_rbig(&rq);
                    ensure!(((&am - &rm) / &bm).is_integer(), "rem", "(a - r)/b is not an integer: a={} b={} r={}", aq, bq, rq);
                    ensure!(rm.abs() * BigRational::from_integer(BigInt::from(2)) <= bm.abs(), "rem", "|r| > |b|/2: a={} b={} r={}", aq, bq, rq);
                    ensure!(q_of_relaxed(&rx) == rm, "relaxed_differs", "Relaxed % = {} but RBig % = {}", rx, rq);
                    ("rem", rm, rq, rx)
                }
                9 => ("neg", -&am, -aq.clone(), -ax.clone()),
                10 => ("abs", am.abs(), aq.clone().abs(), ax.clone().abs()),
                11 => {
                    if am.numer().bits() > 64 * 200 {
                        return Ok(None);
                    }
                    ("sqr", &am * &am, aq.sqr(), ax.sqr())
                }
                12 => {
                    if am.numer().bits().max(am.denom().bits()) > 64 * 60 {
                        return Ok(None);
                    }
                    ("cubic", &am * &am * &am, aq.cubic(), ax.cubic())
                }
                13 => {
                    let e = r.usize(6);
                    if (am.numer().bits().max(am.denom().bits()) as usize) * e > 64 * 300 {
                        return Ok(None);
                    }
                    ("pow", Pow::pow(&am, e as i32), aq.pow(e), ax.pow(e))
                }
                14 => {
                    if am.is_zero() {
                        ensure!(catch(|| aq.clone().inv()).is_err() && catch(|| ax.clone().inv()).is_err(), "no_panic", "inverse of zero returned a value");
                        return Ok(None);
                    }
                    ("inv", BigRational::one() / &am, aq.clone().inv(), ax.clone().inv())
                }
                15 | 16 => {
                    // integer operands on either side
                    let il = comp(r, m);
                    let neg = r.bool();
                    let (ii, iu) = (ibig(neg, &il), ubig(&il));
                    let (mi, mu) = (BigRational::from_integer(int(neg, &il)), BigRational::from_integer(BigInt::from(nat(&il))));
                    match r.below(8) {
                        0 => ("add_ibig", &am + &mi, &aq + &ii, &ax + &ii),
                        1 => ("ibig_sub", &mi - &am, &ii - &aq, &ii - &ax),
                        2 => ("mul_ubig", &am * &mu, &aq * &iu, &ax * &iu),
                        3 => ("ubig_mul", &mu * &am, iu.clone() * aq.clone(), iu.clone() * ax.clone()),
                        4 => {
                            if mi.is_zero() {
                                ensure!(catch(|| &aq / &ii).is_err(), "no_panic", "division by the integer zero returned a value");
                                return Ok(None);
                            }
                            ("div_ibig", &am / &mi, &aq / &ii, &ax / &ii)
                        }
                        5 => {
                            if am.is_zero() {
                                return Ok(None);
                            }
                            ("ubig_div", &mu / &am, &iu / &aq, &iu / &ax)
                        }
                        6 => ("sub_ubig", &am - &mu, aq.clone() - iu.clone(), ax.clone() - iu.clone()),
                        _ => ("ubig_add", &mu + &am, &iu + &aq, &iu + &ax),
                    }
                }
                17 => {
                    // Euclidean division family: q integer, 0 <= r < |b|
                    if bm.is_zero() {
                        return Ok(None);
                    }
                    let (dq, dr) = (&aq).div_rem_euclid(&bq);
                    let (qm, rm) = (BigRational::from_integer(int_of(&dq)), q_of_rbig(&dr));
                    ensure!(&qm * &bm + &rm == am, "euclid", "a != q*b + r for a={} b={}: q={} r={}", aq, bq, dq, dr);
                    ensure!(!rm.is_negative() && rm < bm.abs(), "euclid", "remainder {} not in [0, |b|)", dr);
                    ensure!(int_of(&(&aq).div_euclid(&bq)) == int_of(&dq) && q_of_rbig(&(&aq).rem_euclid(&bq)) == rm, "euclid", "div_euclid/rem_euclid disagree with div_rem_euclid");
                    let (xq, xr) = (&ax).div_rem_euclid(&bx);
                    ensure!(int_of(&xq) == int_of(&dq) && q_of_relaxed(&xr) == rm, "relaxed_differs", "Relaxed div_rem_euclid = ({}, {})", xq, xr);
                    ("rem_euclid", rm, dr, xr)
                }
                18 => {
                    // rebuild from parts (bounds growth), also through the signed constructor
                    let f = fresh(r, m, Some(&am));
                    let (q, x) = mk(&f);
                    let q2 = RBig::from_parts_signed(-ibig_of_int(f.numer()), -IBig::from(ubig_of_nat(f.denom().magnitude())));
                    ensure!(q2 == q, "constructor", "from_parts_signed(-n, -d) = {} != from_parts(n, d) = {}", q2, q);
                    ("fresh", f, q, x)
                }
                19 => ("clone", am.clone(), aq.clone(), ax.clone()),
                20 => {
                    // in-place forms
                    let (mut tq, mut tx) = (aq.clone(), ax.clone());
                    tq += &bq;
                    tx += bx.clone();
                    tq -= RBig::ONE;
                    tx -= Relaxed::ONE;
                    ("assign", &am + &bm - BigRational::one(), tq, tx)
                }
                21 => {
                    let (mut tq, mut tx) = (aq.clone(), ax.clone());
                    if am.numer().bits() + bm.numer().bits() > 64 * 400 {
                        return Ok(None);
                    }
                    tq *= &bq;
                    tx *= &bx;
                    ("mul_assign", &am * &bm, tq, tx)
                }
                22 => ("relax_canon", am.clone(), aq.clone().relax().canonicalize(), ax.clone().canonicalize().relax()),
                _ => {
                    // a + (-a) == 0 must be stored as 0/1
                    ("cancel", BigRational::zero(), &aq - &aq, &ax - &ax)
                }
            };
            Ok(Some((out.0.to_string(), out.1, out.2, out.3)))
        })();
        match res {
            Ok(None) => {}
            Ok(Some((name, want, gq, gx))) => {
                nsteps += 1;
                m.note(&format!("op:{}", name));
                log.push(format!("{}: [{}] = {}([{}], [{}])", step, i, name, j, k));
                let check: R = (|| {
                    canonical(&gq, &name)?;
                    ensure!(q_of_rbig(&gq) == want, "value", "{}: RBig result {} but the exact value is {}", name, gq, show_q(&want));
                    ensure!(q_of_relaxed(&gx) == want, "relaxed_differs", "{}: Relaxed result {} but RBig/exact value is {}", name, gx, gq);
                    ensure!(!nat_of(gx.denominator()).is_zero(), "canonical", "{}: Relaxed with zero denominator", name);
                    Ok(())
                })();
                if let Err(f) = check {
                    failure = Some(f);
                    break;
                }
                // bound growth
                if want.numer().bits().max(want.denom().bits()) > 64 * 300 {
                    let f = fresh(r, m, None);
                    pool[i] = mk(&f);
                    model[i] = f;
                } else {
                    pool[i] = (gq, gx);
                    model[i] = want;
                }
            }
            Err(f) => {
                failure = Some(f);
                break;
            }
        }
    }
    m.note_n("steps", nsteps);
    let d = || format!("history idx={} last ops: {:?}", idx, &log[log.len().saturating_sub(8)..]);
    m.check("history", "", Some(idx), &d, || match failure {
        Some(f) => Err(f),
        None => Ok(()),
    });
    let _ = (UBig::ZERO, BigUint::zero());
}

fn main() {
    mon::main(Spec {
        prop: "C04",
        quick_cases: 8_000,
        thorough_cases: 250_000,
        rule: "One case = one history of 60 (thorough 120) operations over a pool of 8 rationals kept in three forms (RBig, Relaxed twin, num-rational shadow): + - * / % neg abs sqr cubic pow inv, integer operands on either side, Euclidean division family, in-place forms, relax/canonicalize, a - a; fresh operands share factors with pool members (gcd-hint and cross-cancellation paths), zero numerators and integer values included; every RBig produced must be in lowest terms with zero as 0/1 and equal the shadow, the Relaxed twin must have the same value; division by zero must panic. % is judged by the nearest-remainder contract the pinned tests fix. distinct = history index.",
        assumptions: &["num-rational arithmetic exact", "RBig/Relaxed % returns the remainder of smallest magnitude (pinned by tests), ties undetermined"],
        required: &[("history", false), ("op:add", false), ("op:mul", false), ("op:div", false), ("op:rem", false), ("op:pow", false), ("op:inv", false), ("op:rem_euclid", false)],
        case,
        selftest: None,
        panic_finding: None,
    });
}
