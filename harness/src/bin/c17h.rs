//! Plain history runner for Miri / AddressSanitizer / valgrind: `c17h <seed> <histories> <steps> <heavy 0|1>`.
//! Prints one summary line; any invariant failure panics (non-zero exit).
use dvh::hist::{run_history, Cfg};
use dvh::rng::Rng;

fn main() {
    let a: Vec<String> = std::env::args().collect();
    let seed: u64 = a.get(1).and_then(|s| s.parse().ok()).unwrap_or(1);
    let nh: u64 = a.get(2).and_then(|s| s.parse().ok()).unwrap_or(2);
    let steps: usize = a.get(3).and_then(|s| s.parse().ok()).unwrap_or(100);
    let heavy = a.get(4).map_or(false, |s| s == "1");
    // panics the histories provoke on purpose stay quiet, any other panic is reported as usual
    let default_hook = std::panic::take_hook();
    std::panic::set_hook(Box::new(move |info| {
        if !dvh::hist::EXPECT_PANIC.load(std::sync::atomic::Ordering::SeqCst) {
            default_hook(info);
        }
    }));
    let mut total = dvh::hist::Stats::default();
    for h in 0..nh {
        let mut r = Rng::for_case(seed, "C17-sanitizer", h);
        let cfg = Cfg { pool: 6, steps, max_limbs: if heavy { 40 } else { 8 }, cap_limbs: if heavy { 500 } else { 24 }, heavy };
        let mut log = vec![];
        match run_history(&mut r, &cfg, &mut log) {
            Ok(s) => {
                total.steps += s.steps;
                total.heap_to_inline += s.heap_to_inline;
                total.inline_to_heap += s.inline_to_heap;
                total.self_alias += s.self_alias;
                total.statics_used += s.statics_used;
                for k in 0..4 {
                    total.clone_from_cases[k] += s.clone_from_cases[k];
                }
            }
            Err(e) => {
                println!("HISTORY-FAIL seed={} history={} {}", seed, h, e);
                std::process::exit(3);
            }
        }
    }
    // Send/Sync smoke: share and drop values across threads
    let v = std::sync::Arc::new(dvh::conv::ubig(&[1, 2, 3, 4]));
    let hs: Vec<_> = (0..3)
        .map(|t| {
            let v = v.clone();
            std::thread::spawn(move || {
                let c = (*v).clone() + dashu_int::UBig::from(t as u8);
                c.as_words().len()
            })
        })
        .collect();
    let lens: Vec<usize> = hs.into_iter().map(|h| h.join().unwrap()).collect();
    println!("HISTORY-OK seed={} histories={} steps={} heap_to_inline={} inline_to_heap={} clone_from={:?} self_alias={} statics={} threads={:?}", seed, nh, total.steps, total.heap_to_inline, total.inline_to_heap, total.clone_from_cases, total.self_alias, total.statics_used, lens);
}
