//! C02 — integer division identity and conventions (truncating, Euclidean, ConstDivisor, by-zero panics).
use dashu_base::{DivEuclid, DivRem, DivRemAssign, DivRemEuclid, RemEuclid};
use dashu_int::{fast_div::ConstDivisor, IBig, UBig};
use dvh::conv::*;
use dvh::gen;
use dvh::mon::{self, catch, fail, Mon, Spec, R};
use dvh::rng::Rng;
use dvh::sites::Snap;
use dvh::{ensure, layout};
use num_bigint::{BigInt, BigUint};
use num_integer::Integer;
use num_traits::{Signed, Zero};

fn max_limbs(m: &Mon, r: &mut Rng) -> usize {
    if m.thorough() {
        match r.below(100) {
            0 => 20_000,
            1..=5 => 4_000,
            6..=30 => 800,
            _ => 200,
        }
    } else {
        match r.below(100) {
            0..=4 => 700,
            5..=30 => 200,
            _ => 80,
        }
    }
}

/// divisor classes named in the property
fn divisor(r: &mut Rng, mx: usize) -> Vec<u64> {
    match r.below(14) {
        0 => vec![r.word().max(1)],
        1 => vec![1u64 << r.below(64)], // word power of two
        2 => {
            // dword power of two 2^64..2^127
            vec![0, 1u64 << r.below(64)]
        }
        3 => vec![r.u64(), r.word().max(1)], // dword
        4 => {
            // multi-word with special top word
            let n = gen::len(r, mx).max(3);
            let mut v = gen::shape(r, n);
            v[n - 1] = *r.pick(&[1u64, u64::MAX, 1 << 63, (1 << 63) - 1, 2]);
            v
        }
        5 => {
            // 2^k - 1
            let n = gen::len(r, mx).max(1);
            vec![u64::MAX; n]
        }
        6 => {
            // lengths around the D&C threshold 32
            let n = 30 + r.usize(8);
            gen::shape(r, n.min(mx.max(1)))
        }
        7 => {
            let n = 2 + r.usize(3);
            gen::shape(r, n)
        }
        _ => {
            let mut v = gen::mag(r, mx);
            if gen::nlimbs(&v) == 0 {
                v = vec![r.word().max(1)];
            }
            v
        }
    }
}

fn dividend(r: &mut Rng, b: &[u64], mx: usize) -> Vec<u64> {
    let mb = nat(b);
    match r.below(10) {
        0 | 1 | 2 => {
            // a = q*b + r0 with crafted q and r0
            let q = match r.below(5) {
                0 => gen::small_mag(r),
                1 => {
                    // quotient length around D&C threshold
                    let n = 30 + r.usize(8);
                    gen::shape(r, n)
                }
                2 => {
                    let n = gen::len(r, mx.max(1));
                    vec![u64::MAX; n]
                } // all-ones quotient (top-word corrections)
                _ => gen::mag(r, mx),
            };
            let r0 = match r.below(4) {
                0 => BigUint::zero(),
                1 => {
                    if mb.is_zero() {
                        BigUint::zero()
                    } else {
                        &mb - 1u32
                    }
                }
                2 => BigUint::from(r.below(3)),
                _ => {
                    if mb.is_zero() {
                        BigUint::zero()
                    } else {
                        nat(&gen::shape(r, gen::nlimbs(b))) % &mb
                    }
                }
            };
            let r0 = if !mb.is_zero() && r0 >= mb { BigUint::zero() } else { r0 };
            limbs_of_nat(&(nat(&q) * &mb + r0))
        }
        3 => {
            // b * 2^m - 1 (estimate-too-big corrections)
            let sh = r.below(64 * 40);
            let v = (mb << sh as usize) - 1u32;
            limbs_of_nat(&v)
        }
        4 => gen::small_mag(r),
        5 => {
            // same length as b
            gen::shape(r, gen::nlimbs(b))
        }
        6 => {
            // one limb longer, top limbs equal to b's top (quotient digit = max)
            let mut v = gen::shape(r, gen::nlimbs(b) + 1);
            let n = v.len();
            if n >= 2 && !b.is_empty() {
                v[n - 1] = b[gen::nlimbs(b) - 1].wrapping_sub(r.below(2));
                v[n - 2] = u64::MAX;
            }
            v
        }
        _ => gen::mag(r, mx * 2),
    }
}

fn trunc(a: &BigInt, b: &BigInt) -> (BigInt, BigInt) {
    a.div_rem(b)
}

fn euclid(a: &BigInt, b: &BigInt) -> (BigInt, BigInt) {
    let (q, r) = a.div_rem(b);
    if r.is_negative() {
        if b.is_positive() {
            (q - 1, r + b)
        } else {
            (q + 1, r - b)
        }
    } else {
        (q, r)
    }
}

fn eq_u(got: &UBig, want: &BigInt, what: &str) -> R {
    if let Err(e) = layout::check_u(got) {
        return fail("layout", format!("{}: {}", what, e));
    }
    ensure!(BigInt::from(nat_of(got)) == *want, "value", "{}: got {} want {}", what, show_u(got), show_int(want));
    Ok(())
}

fn eq_i(got: &IBig, want: &BigInt, what: &str) -> R {
    if let Err(e) = layout::check_i(got) {
        return fail("layout", format!("{}: {}", what, e));
    }
    ensure!(int_of(got) == *want, "value", "{}: got {} want {}", what, show_i(got), show_int(want));
    Ok(())
}

/// identity and range re-evaluated with the model's multiplication (does not rest on num-bigint division)
fn identity(a: &BigInt, b: &BigInt, q: &BigInt, rm: &BigInt, eucl: bool, what: &str) -> R {
    ensure!(&(q * b + rm) == a, "identity", "{}: a != q*b + r (q={} r={})", what, show_int(q), show_int(rm));
    ensure!(rm.magnitude() < b.magnitude(), "range", "{}: |r| >= |b| (r={})", what, show_int(rm));
    if eucl {
        ensure!(!rm.is_negative(), "range", "{}: Euclidean remainder negative", what);
    } else {
        ensure!(rm.is_zero() || rm.is_negative() == a.is_negative(), "sign", "{}: remainder sign differs from dividend", what);
    }
    Ok(())
}

fn case(m: &mut Mon, r: &mut Rng, _idx: u64) {
    let mx = max_limbs(m, r);
    let mut b = divisor(r, mx);
    if gen::nlimbs(&b) == 0 {
        b = vec![1 + r.below(3)];
    }
    let a = dividend(r, &b, mx);
    let (na, nb) = (r.bool(), r.bool());
    let h = gen::hash_limbs(gen::hash_limbs(na as u64 * 2 + nb as u64, &a), &b);
    let (la, lb) = (gen::nlimbs(&a), gen::nlimbs(&b));
    let nontriv = if la >= 1 && lb >= 1 && nat(&a) >= nat(&b) { Some(h) } else { None };
    let form = r.below(4);
    let desc = |op: &str| format!("{} a={}{} b={}{} form={}", op, if na { "-" } else { "" }, gen::hex(&a), if nb { "-" } else { "" }, gen::hex(&b), form);
    let signs = format!("{}{}", if na { '-' } else { '+' }, if nb { '-' } else { '+' });
    let qclass = gen::size_class(la.saturating_sub(lb));
    let (mua, mub) = (BigInt::from(nat(&a)), BigInt::from(nat(&b)));
    let (mia, mib) = (int(na, &a), int(nb, &b));

    match r.below(12) {
        0 | 1 | 2 => {
            // UBig all forms against model, forms against each other
            let (x, y) = (ubig(&a), ubig(&b));
            let (wq, wr) = trunc(&mua, &mub);
            let snap = Snap::take();
            let dr = catch(|| match form {
                0 => x.clone().div_rem(y.clone()),
                1 => (&x).div_rem(&y),
                2 => x.clone().div_rem(&y),
                _ => (&x).div_rem(y.clone()),
            });
            let strat = snap.delta("DIV_");
            m.check("ubig_div", &format!("d{}/q{}/{}", gen::size_class(lb), qclass, strat), nontriv, &|| desc("ubig_div"), || {
                let (q, rm) = match dr {
                    Ok(v) => v,
                    Err(p) => return fail("unexpected_panic", p),
                };
                eq_u(&q, &wq, "div_rem.q")?;
                eq_u(&rm, &wr, "div_rem.r")?;
                identity(&mua, &mub, &BigInt::from(nat_of(&q)), &BigInt::from(nat_of(&rm)), true, "ubig div_rem")?;
                eq_u(&(&x / &y), &wq, "/")?;
                eq_u(&(&x % &y), &wr, "%")?;
                eq_u(&(x.clone().div_euclid(&y)), &wq, "div_euclid")?;
                eq_u(&((&x).rem_euclid(y.clone())), &wr, "rem_euclid")?;
                let (eq, er) = (&x).div_rem_euclid(&y);
                eq_u(&eq, &wq, "div_rem_euclid.q")?;
                eq_u(&er, &wr, "div_rem_euclid.r")?;
                let mut t = x.clone();
                let r2 = t.div_rem_assign(&y);
                eq_u(&t, &wq, "div_rem_assign.q")?;
                eq_u(&r2, &wr, "div_rem_assign.r")?;
                let mut t = x.clone();
                t /= &y;
                eq_u(&t, &wq, "/=")?;
                let mut t = x.clone();
                t %= y.clone();
                eq_u(&t, &wr, "%=")?;
                ensure!(x.is_multiple_of(&y) == wr.is_zero(), "value", "is_multiple_of = {} but r = {}", x.is_multiple_of(&y), show_int(&wr));
                Ok(())
            });
        }
        3 | 4 | 5 => {
            let (x, y) = (ibig(na, &a), ibig(nb, &b));
            let (wq, wr) = trunc(&mia, &mib);
            let (weq, wer) = euclid(&mia, &mib);
            m.check("ibig_div", &format!("d{}/q{}/{}", gen::size_class(lb), qclass, signs), nontriv, &|| desc("ibig_div"), || {
                let (q, rm) = match form {
                    0 => x.clone().div_rem(y.clone()),
                    1 => (&x).div_rem(&y),
                    2 => x.clone().div_rem(&y),
                    _ => (&x).div_rem(y.clone()),
                };
                eq_i(&q, &wq, "div_rem.q")?;
                eq_i(&rm, &wr, "div_rem.r")?;
                identity(&mia, &mib, &int_of(&q), &int_of(&rm), false, "ibig div_rem")?;
                eq_i(&(&x / &y), &wq, "/")?;
                eq_i(&(&x % &y), &wr, "%")?;
                eq_i(&(x.clone() / y.clone()), &wq, "/ val")?;
                eq_i(&(x.clone() % &y), &wr, "% valref")?;
                eq_i(&((&x).div_euclid(&y)), &weq, "div_euclid")?;
                eq_u(&((&x).rem_euclid(&y)), &wer, "rem_euclid")?;
                let (eq, er) = x.clone().div_rem_euclid(y.clone());
                eq_i(&eq, &weq, "div_rem_euclid.q")?;
                eq_u(&er, &wer, "div_rem_euclid.r")?;
                identity(&mia, &mib, &int_of(&eq), &BigInt::from(nat_of(&er)), true, "ibig div_rem_euclid")?;
                let mut t = x.clone();
                let r2 = t.div_rem_assign(&y);
                eq_i(&t, &wq, "div_rem_assign.q")?;
                eq_i(&r2, &wr, "div_rem_assign.r")?;
                let mut t = x.clone();
                t /= &y;
                eq_i(&t, &wq, "/=")?;
                let mut t = x.clone();
                t %= &y;
                eq_i(&t, &wr, "%=")?;
                ensure!(x.is_multiple_of(&y) == wr.is_zero(), "value", "is_multiple_of = {} but r = {}", x.is_multiple_of(&y), show_int(&wr));
                Ok(())
            });
        }
        6 => {
            // mixed UBig / IBig
            let (xu, yi) = (ubig(&a), ibig(nb, &b));
            let (xi, yu) = (ibig(na, &a), ubig(&b));
            m.check("mixed_div", &format!("d{}/q{}/{}", gen::size_class(lb), qclass, signs), nontriv, &|| desc("mixed_div"), || {
                // every ownership form of the mixed-type operators is a separate macro arm: rotate through them
                let form = (h ^ (h >> 7)) % 4;
                let (wq, wr) = trunc(&mua, &mib);
                let (q1, r1, (q, rm)) = match form {
                    0 => (&xu / &yi, &xu % &yi, (&xu).div_rem(&yi)),
                    1 => (xu.clone() / yi.clone(), xu.clone() % yi.clone(), xu.clone().div_rem(yi.clone())),
                    2 => (&xu / yi.clone(), &xu % yi.clone(), (&xu).div_rem(yi.clone())),
                    _ => (xu.clone() / &yi, xu.clone() % &yi, xu.clone().div_rem(&yi)),
                };
                eq_i(&q1, &wq, "u/i")?;
                eq_u(&r1, &wr, "u%i")?;
                eq_i(&q, &wq, "u.div_rem(i).q")?;
                eq_u(&rm, &wr, "u.div_rem(i).r")?;
                let (wq, wr) = trunc(&mia, &mub);
                let (q1, r1, (q, rm)) = match form {
                    0 => (&xi / &yu, &xi % &yu, (&xi).div_rem(&yu)),
                    1 => (xi.clone() / yu.clone(), xi.clone() % yu.clone(), xi.clone().div_rem(yu.clone())),
                    2 => (&xi / yu.clone(), &xi % yu.clone(), (&xi).div_rem(yu.clone())),
                    _ => (xi.clone() / &yu, xi.clone() % &yu, xi.clone().div_rem(&yu)),
                };
                eq_i(&q1, &wq, "i/u")?;
                eq_i(&r1, &wr, "i%u")?;
                eq_i(&q, &wq, "i.div_rem(u).q")?;
                eq_i(&rm, &wr, "i.div_rem(u).r")?;
                let mut t = xi.clone();
                t /= &yu;
                eq_i(&t, &wq, "i/=u")?;
                let mut t = xu.clone();
                t %= &yi;
                eq_u(&t, &trunc(&mua, &mib).1, "u%=i")
            });
        }
        7 | 8 => {
            // ConstDivisor
            let y = ubig(&b);
            let cd = ConstDivisor::new(y.clone());
            let (x, xi) = (ubig(&a), ibig(na, &a));
            let kind = match lb {
                1 => "word",
                2 => "dword",
                _ => "large",
            };
            m.check("const_div", &format!("{}/q{}/{}", kind, qclass, if na { '-' } else { '+' }), nontriv, &|| desc("const_div"), || {
                ensure!(nat_of(&cd.value()) == nat(&b), "value", "ConstDivisor::value() = {}", show_u(&cd.value()));
                let (wq, wr) = trunc(&mua, &mub);
                eq_u(&(&x / &cd), &wq, "u/cd")?;
                eq_u(&(&x % &cd), &wr, "u%cd")?;
                eq_u(&(x.clone() / &cd), &wq, "u/cd val")?;
                eq_u(&(x.clone() % &cd), &wr, "u%cd val")?;
                let (q, rm) = (&x).div_rem(&cd);
                eq_u(&q, &wq, "u.div_rem(cd).q")?;
                eq_u(&rm, &wr, "u.div_rem(cd).r")?;
                let (q, rm) = x.clone().div_rem(&cd);
                eq_u(&q, &wq, "u.div_rem(cd).q val")?;
                eq_u(&rm, &wr, "u.div_rem(cd).r val")?;
                let mut t = x.clone();
                let r2 = t.div_rem_assign(&cd);
                eq_u(&t, &wq, "u.div_rem_assign(cd).q")?;
                eq_u(&r2, &wr, "u.div_rem_assign(cd).r")?;
                let mut t = x.clone();
                t /= &cd;
                eq_u(&t, &wq, "u/=cd")?;
                let mut t = x.clone();
                t %= &cd;
                eq_u(&t, &wr, "u%=cd")?;
                let (wq, wr) = trunc(&mia, &mub);
                eq_i(&(&xi / &cd), &wq, "i/cd")?;
                eq_i(&(&xi % &cd), &wr, "i%cd")?;
                eq_i(&(xi.clone() / &cd), &wq, "i/cd val")?;
                eq_i(&(xi.clone() % &cd), &wr, "i%cd val")?;
                let (q, rm) = (&xi).div_rem(&cd);
                eq_i(&q, &wq, "i.div_rem(cd).q")?;
                eq_i(&rm, &wr, "i.div_rem(cd).r")?;
                let mut t = xi.clone();
                let r2 = t.div_rem_assign(&cd);
                eq_i(&t, &wq, "i.div_rem_assign(cd).q")?;
                eq_i(&r2, &wr, "i.div_rem_assign(cd).r")?;
                // the const divisibility test takes a double-word divisor: against the model remainder, and on
                // multiples built in the model (a*d divisible, a*d + 1 not when d > 1), both signs
                let d128: u128 = (b[0] as u128) | ((if b.len() > 1 { b[1] } else { 0 }) as u128) << 64;
                // (DoubleWord is u64 in the 32-bit-word builds of C19)
                if let (true, Ok(d)) = (lb <= 2, dashu_int::DoubleWord::try_from(d128)) {
                    ensure!(x.is_multiple_of_const(d) == wr.is_zero(), "value", "UBig::is_multiple_of_const({:#x}) = {} but a % d = {}", d, x.is_multiple_of_const(d), show_int(&wr));
                    ensure!(xi.is_multiple_of_const(d) == wr.is_zero(), "value", "IBig::is_multiple_of_const({:#x}) = {} but a % d = {}", d, xi.is_multiple_of_const(d), show_int(&wr));
                    let prod = nat(&a) * nat(&b);
                    let pu = ubig(&limbs_of_nat(&prod));
                    ensure!(pu.is_multiple_of_const(d), "value", "(a*d).is_multiple_of_const(d) is false, d = {:#x}", d);
                    ensure!((-IBig::from(pu.clone())).is_multiple_of_const(d), "value", "(-a*d).is_multiple_of_const(d) is false, d = {:#x}", d);
                    if d > 1 {
                        let p1 = ubig(&limbs_of_nat(&(prod + 1u32)));
                        ensure!(!p1.is_multiple_of_const(d), "value", "(a*d+1).is_multiple_of_const(d) is true, d = {:#x}", d);
                    }
                }
                Ok(())
            });
        }
        9 => {
            // division by zero must panic in every form
            let (x, xi) = (ubig(&a), ibig(na, &a));
            let which = r.below(12);
            m.check("div_by_zero", &format!("w{}", which), Some(h ^ which), &|| format!("div_by_zero a={} which={}", gen::hex(&a), which), || {
                let (z, zi) = (UBig::ZERO, IBig::ZERO);
                let res: Result<String, String> = match which {
                    0 => catch(|| show_u(&(&x / &z))),
                    1 => catch(|| show_u(&(&x % &z))),
                    2 => catch(|| show_u(&(&x).div_rem(&z).0)),
                    3 => catch(|| show_i(&(&xi / &zi))),
                    4 => catch(|| show_i(&(&xi % &zi))),
                    5 => catch(|| show_i(&(&xi).div_rem(&zi).0)),
                    6 => catch(|| show_i(&(&xi).div_euclid(&zi))),
                    7 => catch(|| show_u(&(&xi).rem_euclid(&zi))),
                    8 => catch(|| show_i(&(&xi).div_rem_euclid(&zi).0)),
                    9 => catch(|| show_u(&(&x / 0u8))),
                    10 => catch(|| show_i(&(&xi / 0i64))),
                    _ => catch(|| show_u(&ConstDivisor::new(UBig::ZERO).value())),
                };
                match res {
                    Ok(v) => fail("no_panic", format!("division by zero returned {}", v)),
                    Err(_) => Ok(()),
                }
            });
        }
        _ => {
            // primitive divisors / dividends
            let (x, xi) = (ubig(&a), ibig(na, &a));
            let p = r.word().max(1);
            let which = r.below(10);
            let d = || format!("prim_div a={}{} p={:#x} which={}", if na { "-" } else { "" }, gen::hex(&a), p, which);
            m.check("prim_div", &format!("{}/w{}", gen::size_class(la), which), nontriv.map(|h| h ^ p), &d, || {
                match which {
                    0 => {
                        let p8 = (p as u8).max(1);
                        let (wq, wr) = trunc(&mua, &BigInt::from(p8));
                        eq_u(&(&x / p8), &wq, "u/u8")?;
                        ensure!(BigInt::from(&x % p8) == wr, "value", "u%u8 = {}", &x % p8);
                        let (q, rm) = (&x).div_rem(p8);
                        eq_u(&q, &wq, "u.div_rem(u8).q")?;
                        ensure!(BigInt::from(rm) == wr, "value", "u.div_rem(u8).r = {}", rm);
                        Ok(())
                    }
                    1 => {
                        let (wq, wr) = trunc(&mua, &BigInt::from(p));
                        eq_u(&(&x / p), &wq, "u/u64")?;
                        ensure!(BigInt::from(&x % p) == wr, "value", "u%u64 = {}", &x % p);
                        let mut t = x.clone();
                        let rm = t.div_rem_assign(p);
                        eq_u(&t, &wq, "u.div_rem_assign(u64).q")?;
                        ensure!(BigInt::from(rm) == wr, "value", "u.div_rem_assign(u64).r = {}", rm);
                        Ok(())
                    }
                    2 => {
                        let p128 = ((p as u128) << 50) | p as u128;
                        let (wq, wr) = trunc(&mua, &BigInt::from(p128));
                        eq_u(&(&x / p128), &wq, "u/u128")?;
                        ensure!(BigInt::from(&x % p128) == wr, "value", "u%u128 = {}", &x % p128);
                        Ok(())
                    }
                    3 => {
                        // primitive dividend / UBig -> primitive
                        if mua.is_zero() {
                            return Ok(());
                        }
                        let wq = trunc(&BigInt::from(p), &mua).0;
                        ensure!(BigInt::from(p / &x) == wq, "value", "u64/u = {}", p / &x);
                        Ok(())
                    }
                    4 => {
                        let pi = (p as i64).max(i64::MIN + 1);
                        let pi = if pi == 0 { 1 } else { pi };
                        let (wq, wr) = trunc(&mia, &BigInt::from(pi));
                        eq_i(&(&xi / pi), &wq, "i/i64")?;
                        ensure!(BigInt::from(&xi % pi) == wr, "value", "i%i64 = {}", &xi % pi);
                        let (q, rm) = (&xi).div_rem(pi);
                        eq_i(&q, &wq, "i.div_rem(i64).q")?;
                        ensure!(BigInt::from(rm) == wr, "value", "i.div_rem(i64).r = {}", rm);
                        Ok(())
                    }
                    5 => {
                        let pi = (p as i8).max(-127);
                        let pi = if pi == 0 { 1 } else { pi };
                        let (wq, wr) = trunc(&mia, &BigInt::from(pi));
                        eq_i(&(&xi / pi), &wq, "i/i8")?;
                        ensure!(BigInt::from(&xi % pi) == wr, "value", "i%i8 = {}", &xi % pi);
                        Ok(())
                    }
                    6 => {
                        let pi = ((p as i128) << 40) ^ (p as i128);
                        let pi = if pi == 0 { 1 } else { pi };
                        let (wq, wr) = trunc(&mia, &BigInt::from(pi));
                        eq_i(&(&xi / pi), &wq, "i/i128")?;
                        ensure!(BigInt::from(&xi % pi) == wr, "value", "i%i128 = {}", &xi % pi);
                        Ok(())
                    }
                    7 => {
                        // IBig by unsigned primitive: quotient always; remainder only judged when representable (non-negative dividend)
                        let pu = (p as u32).max(1);
                        let (wq, wr) = trunc(&mia, &BigInt::from(pu));
                        eq_i(&(&xi / pu), &wq, "i/u32")?;
                        if !wr.is_negative() {
                            ensure!(BigInt::from(&xi % pu) == wr, "value", "i%u32 = {}", &xi % pu);
                        }
                        Ok(())
                    }
                    8 => {
                        if mia.is_zero() {
                            return Ok(());
                        }
                        let pi = p as i64;
                        let wq = trunc(&BigInt::from(pi), &mia).0;
                        if wq > BigInt::from(i64::MAX) {
                            return Ok(()); // i64::MIN / -1 is not representable (same as the primitive overflow)
                        }
                        ensure!(BigInt::from(pi / &xi) == wq, "value", "i64/i = {}", pi / &xi);
                        Ok(())
                    }
                    _ => {
                        let p16 = (p as u16).max(1);
                        let (wq, wr) = trunc(&mua, &BigInt::from(p16));
                        let mut t = x.clone();
                        t /= p16;
                        eq_u(&t, &wq, "u/=u16")?;
                        ensure!(BigInt::from(&x % p16) == wr, "value", "u%u16 = {}", &x % p16);
                        Ok(())
                    }
                }
            });
        }
    }
}

fn selftest() -> Result<(), String> {
    let (q, r) = euclid(&BigInt::from(-23), &BigInt::from(10));
    if q != BigInt::from(-3) || r != BigInt::from(7) {
        return Err("euclid(-23,10)".into());
    }
    let (q, r) = euclid(&BigInt::from(-23), &BigInt::from(-10));
    if q != BigInt::from(3) || r != BigInt::from(7) {
        return Err("euclid(-23,-10)".into());
    }
    let (q, r) = trunc(&BigInt::from(-23), &BigInt::from(10));
    if q != BigInt::from(-2) || r != BigInt::from(-3) {
        return Err("trunc(-23,10)".into());
    }
    Ok(())
}

fn main() {
    mon::main(Spec {
        prop: "C02",
        quick_cases: 600_000,
        thorough_cases: 20_000_000,
        rule: "Divisor classes (word, word/dword powers of two, dword, multi-word with top word 1/MAX/2^63, all-ones, lengths around 32) x dividends built as q*b+r with crafted q (all-ones, lengths around 32) and r (0, b-1, small), b*2^m-1, same-length and one-limb-longer operands, every sign combination; each form compared with num-bigint and the identity a=q*b+r re-evaluated with model multiplication; non-trivial = |a| >= |b| > 0.",
        assumptions: &["num-bigint div_rem (truncating) is correct; identity/range are re-checked with multiplication only", "IBig % unsigned-primitive with a negative remainder is not judged here (not representable; see C16)"],
        required: &[("ubig_div", false), ("ibig_div", false), ("const_div/large", false), ("DIV_DC", false), ("DIV_SIMPLE", false), ("div_by_zero", false)],
        case,
        selftest: Some(selftest),
        panic_finding: None,
    });
}
