//! C05 — equality, ordering and hashing follow the mathematical value (UBig, IBig, RBig/Relaxed, FBig).
use dashu_base::{Approximation, BitTest, Sign};
use dashu_float::{round::mode, FBig};
use dashu_int::{IBig, UBig};
use dashu_ratio::{RBig, Relaxed};
use dvh::conv::*;
use dvh::gen;
use dvh::mon::{self, catch, fail, Mon, Spec, R};
use dvh::rng::Rng;
use dvh::{ensure, layout};
use num_bigint::{BigInt, BigUint};
use num_rational::BigRational;
use num_traits::{One, Zero};
use std::cmp::Ordering;
use std::collections::hash_map::DefaultHasher;
use std::hash::{Hash, Hasher};
use std::str::FromStr;

fn hash_of<T: Hash>(t: &T) -> u64 {
    let mut h = DefaultHasher::new();
    t.hash(&mut h);
    h.finish()
}

/// a target value straddling the representation boundaries
fn target(m: &Mon, r: &mut Rng) -> BigUint {
    match r.below(10) {
        0 => BigUint::zero(),
        1 => {
            // around 2^64, 2^128, 2^192
            let k = *r.pick(&[64usize, 128, 192, 256]);
            let p = BigUint::one() << k;
            match r.below(4) {
                0 => p,
                1 => p - 1u32,
                2 => p + 1u32,
                _ => p - BigUint::from(r.below(1000)),
            }
        }
        2 => (BigUint::one() << (1 + r.usize(400))) - 1u32, // 2^n - 1 (UBig::ones)
        3 => BigUint::from(r.word()),
        4 => nat(&[r.u64(), r.word()]),
        5 | 6 => nat(&gen::small_mag(r)),
        _ => nat(&gen::mag(r, if m.thorough() { 300 } else { 60 })),
    }
}

/// many routes to the same UBig value
fn routes_u(r: &mut Rng, v: &BigUint) -> Vec<(String, UBig)> {
    let l = limbs_of_nat(v);
    let base = ubig(&l);
    let mut out: Vec<(String, UBig)> = vec![("from_words".into(), base.clone())];
    // padded words
    let mut padded = l.clone();
    padded.extend(std::iter::repeat(0).take(r.usize(4)));
    out.push(("from_words_padded".into(), ubig(&padded)));
    out.push(("from_le_bytes".into(), UBig::from_le_bytes(&v.to_bytes_le())));
    out.push(("from_be_bytes".into(), UBig::from_be_bytes(&v.to_bytes_be())));
    if v.bits() < 20_000 {
        out.push(("parse_dec".into(), UBig::from_str(&v.to_str_radix(10)).unwrap()));
        out.push(("parse_hex".into(), UBig::from_str_radix(&v.to_str_radix(16), 16).unwrap()));
        out.push(("parse_r36".into(), UBig::from_str_radix(&v.to_str_radix(36), 36).unwrap()));
    }
    let k = ubig(&gen::small_mag(r)) + UBig::ONE;
    out.push(("add_sub".into(), (&base + &k) - &k));
    out.push(("mul_div".into(), (&base * &k) / &k));
    let bl = 5 + r.usize(30);
    let big = ubig(&gen::shape(r, bl));
    out.push(("add_sub_big".into(), (&base + &big) - &big));
    let s = r.usize(200);
    out.push(("shl_shr".into(), (&base << s) >> s));
    out.push(("clone".into(), base.clone()));
    // clone_from onto hosts of several sizes
    for host_len in [0usize, 1, 2, 3, l.len(), l.len() + 1, l.len() * 2 + 5, l.len().saturating_sub(1)] {
        let mut host = ubig(&gen::shape(r, host_len));
        host.clone_from(&base);
        out.push((format!("clone_from_host{}", host_len), host));
    }
    let n = r.usize(v.bits() as usize + 70);
    let (lo, hi) = base.clone().split_bits(n);
    out.push(("split_rejoin".into(), lo | (hi << n)));
    let cb = 1 + r.usize(200);
    let chunks = base.to_chunks(cb);
    out.push(("chunks".into(), UBig::from_chunks(chunks.iter(), cb)));
    let extra = v.bits() as usize + r.usize(130);
    let mut t = base.clone();
    t.set_bit(extra);
    t.clear_bit(extra);
    out.push(("set_clear_bit".into(), t));
    let mut t = base.clone();
    t.clear_high_bits(v.bits() as usize + r.usize(3));
    out.push(("clear_high_bits".into(), t));
    if v.bits() <= 128 {
        let p: u128 = v.to_u64_digits().iter().rev().fold(0u128, |a, d| (a << 64) | *d as u128);
        out.push(("from_u128".into(), UBig::from(p)));
        if v.bits() <= 64 {
            out.push(("from_u64".into(), UBig::from(p as u64)));
        }
    }
    if !v.is_zero() && (v + 1u32).count_ones() == 1 {
        out.push(("ones".into(), UBig::ones(v.bits() as usize)));
    }
    out.push(("via_ibig".into(), UBig::try_from(IBig::from(base.clone())).unwrap()));
    out.push(("neg_neg".into(), UBig::try_from(-(-IBig::from(base.clone()))).unwrap()));
    out.push(("and_ones".into(), &base & UBig::ones(v.bits() as usize + r.usize(100))));
    out.push(("mem_take".into(), {
        let mut t = base.clone();
        let u = std::mem::take(&mut t);
        u
    }));
    out
}

fn check_equal_group_u(routes: &[(String, UBig)], v: &BigUint) -> R {
    let h0 = hash_of(&routes[0].1);
    for (name, x) in routes {
        layout::check_u(x).or_else(|e| fail("layout", format!("route {}: {}", name, e)))?;
        ensure!(nat_of(x) == *v, "route_value", "route {} produced {} instead of {}", name, show_u(x), show_nat(v));
        ensure!(hash_of(x) == h0, "hash", "route {} hashes differently from route {}", name, routes[0].0);
    }
    for (na, a) in routes {
        for (nb, b) in routes {
            ensure!(a == b, "eq", "routes {} and {} give the same value but != ", na, nb);
            ensure!(a.cmp(b) == Ordering::Equal, "cmp", "routes {} and {}: cmp = {:?} for equal values", na, nb, a.cmp(b));
            ensure!(!(a < b) && a <= b && a >= b, "cmp", "routes {} and {}: partial order operators inconsistent", na, nb);
        }
    }
    Ok(())
}

/// normalised float representation: significand not divisible by the base, zero is 0 x B^0
fn fnorm<Rm: dashu_float::round::Round, const B: dashu_int::Word>(f: &FBig<Rm, B>, what: &str) -> R {
    let sg = int_of(f.repr().significand());
    if f.repr().is_infinite() {
        return Ok(());
    }
    if sg.is_zero() {
        ensure!(f.repr().exponent() == 0, "float_repr", "{}: zero stored with exponent {}", what, f.repr().exponent());
    } else {
        ensure!(!(&sg % BigInt::from(B as u64)).is_zero(), "float_repr", "{}: significand {} is divisible by the base {}", what, sg, B);
    }
    Ok(())
}

/// the same value reached through an exact base conversion (source base = target base ^ n) and built
/// directly in the target base must be ==, cmp Equal and normalised
fn conv_route<const A: dashu_int::Word, const T: dashu_int::Word>(neg: bool, sig: &BigUint, e: i64, n: i64) -> R {
    let si = ibig(neg, &limbs_of_nat(sig));
    let src = FBig::<mode::Zero, A>::from_parts(si.clone(), e as isize);
    let val = q_of_repr(src.repr());
    // with_base picks its target precision from f32 log2 estimates and may come out one digit short (then the
    // result is legitimately rounded): the precision is given explicitly, n digits of T per digit of A suffice
    let (dst, exact) = match src.clone().with_base_and_precision::<T>(src.precision().max(1) * n as usize) {
        Approximation::Exact(v) => (v, true),
        Approximation::Inexact(v, _) => (v, false),
    };
    fnorm(&dst, "with_base_and_precision result")?;
    if let Approximation::Exact(v) = src.clone().with_base::<T>() {
        fnorm(&v, "with_base result")?;
        ensure!(v == dst && v.cmp(&dst) == Ordering::Equal, "eq", "with_base and with_base_and_precision (both Exact) give different values");
    }
    ensure!(exact, "flag", "with_base_and_precision from base {} to base {} with {} digits per digit reported Inexact", A, T, n);
    ensure!(q_of_repr(dst.repr()) == val, "route_value", "with_base::<{}> changed the value of {}*{}^{}", T, si, A, e);
    // direct construction in the target base: s * A^e = s * T^(n e)
    let direct = FBig::<mode::HalfAway, T>::from_parts(ibig_of_int(&int(neg, &limbs_of_nat(sig))), (e * n) as isize);
    ensure!(q_of_repr(direct.repr()) == val, "route_value", "direct construction differs");
    let direct0: FBig<mode::Zero, T> = direct.clone().with_rounding::<mode::Zero>();
    ensure!(dst == direct0 && direct0 == dst, "eq", "value converted from base {} != the same value built in base {} ({:?} vs {:?})", A, T, dst.repr(), direct0.repr());
    ensure!(dst.cmp(&direct0) == Ordering::Equal && direct0.cmp(&dst) == Ordering::Equal, "cmp", "converted value does not compare Equal to the directly built one");
    // and back (T -> A is exact only if the exponent is aligned; judge only what is flagged Exact)
    if let Approximation::Exact(back) = dst.clone().with_base::<A>() {
        fnorm(&back, "with_base round trip")?;
        ensure!(back == src && src == back && back.cmp(&src) == Ordering::Equal, "eq", "round trip through base {} is flagged Exact but != the original", T);
    }
    Ok(())
}

/// exact products reached through different operations (x*x, sqr, powi(2); x*x*x, cubic, powi(3); x*y in both orders
/// and in place) are one value: ==, cmp Equal, normalised. The interesting bases are those with a repeated prime
/// factor (4, 8, 9, 16, 36), where a product of normalised significands can be divisible by the base.
fn pow_route<const B: dashu_int::Word>(neg: bool, s1: u64, s2: u64, e: i64, unlimited: bool) -> R {
    type F<const B: dashu_int::Word> = FBig<mode::Zero, B>;
    let mk = |s: u64, neg: bool, e: i64| -> F<B> {
        let f = F::<B>::from_parts(IBig::from(s) * if neg { IBig::NEG_ONE } else { IBig::ONE }, e as isize);
        // room for every product below: nothing is rounded
        f.with_precision(if unlimited { 0 } else { 60 }).value()
    };
    let (x, y) = (mk(s1, neg, e), mk(s2, false, -e / 2));
    let (qx, qy) = (q_of_repr(x.repr()), q_of_repr(y.repr()));
    let group = |vals: &[(&str, F<B>)], want: &BigRational| -> R {
        for (name, v) in vals {
            fnorm(v, name)?;
            ensure!(q_of_repr(v.repr()) == *want, "route_value", "{} of {:?} has the value {:?}", name, x.repr(), v.repr());
            ensure!(*v == vals[0].1 && vals[0].1 == *v && v.cmp(&vals[0].1) == Ordering::Equal && v.partial_cmp(&vals[0].1) == Some(Ordering::Equal), "eq", "{} = {:?} and {} = {:?} are the same value but compare unequal (base {})", name, v.repr(), vals[0].0, vals[0].1.repr(), B);
        }
        Ok(())
    };
    group(&[("x * x", &x * &x), ("sqr", x.sqr()), ("powi(2)", x.powi(IBig::from(2))), ("context sqr", x.context().sqr(x.repr()).value())], &(&qx * &qx))?;
    group(&[("x * x * x", &x * &x * &x), ("cubic", x.cubic()), ("powi(3)", x.powi(IBig::from(3)))], &(&qx * &qx * &qx))?;
    let mut t = x.clone();
    t *= &y;
    group(&[("x * y", &x * &y), ("y * x", y.clone() * x.clone()), ("x *= y", t)], &(&qx * &qy))
}

fn sgn(neg: bool) -> Sign {
    if neg {
        Sign::Negative
    } else {
        Sign::Positive
    }
}

fn case(m: &mut Mon, r: &mut Rng, _idx: u64) {
    match r.below(10) {
        0 | 1 | 2 => {
            // UBig: same value by many routes + comparison with a neighbour
            let v = target(m, r);
            let w = match r.below(4) {
                0 => &v + 1u32,
                1 => {
                    if v.is_zero() {
                        BigUint::one()
                    } else {
                        &v - 1u32
                    }
                }
                2 => &v ^ (BigUint::one() << r.usize(v.bits() as usize + 3)),
                _ => target(m, r),
            };
            let d = || format!("ubig_routes v={} w={}", show_nat(&v), show_nat(&w));
            let h = gen::hash_limbs(gen::hash_limbs(1, &limbs_of_nat(&v)), &limbs_of_nat(&w));
            let cell = format!("{}", gen::size_class(limbs_of_nat(&v).len()));
            m.check("ubig_routes", &cell, if v.bits() > 0 { Some(h) } else { None }, &d, || {
                let rv = catch(|| routes_u(r, &v)).or_else(|p| fail("unexpected_panic", p))?;
                check_equal_group_u(&rv, &v)?;
                let rw = catch(|| routes_u(r, &w)).or_else(|p| fail("unexpected_panic", p))?;
                let want = v.cmp(&w);
                for (na, a) in rv.iter().step_by(3) {
                    for (nb, b) in rw.iter().step_by(2) {
                        ensure!(a.cmp(b) == want, "cmp", "cmp(route {}, route {}) = {:?} want {:?}", na, nb, a.cmp(b), want);
                        ensure!(b.cmp(a) == want.reverse(), "cmp", "cmp not antisymmetric for routes {} / {}", na, nb);
                        ensure!((a == b) == (want == Ordering::Equal), "eq", "== is {} but cmp is {:?} (routes {}, {})", a == b, want, na, nb);
                        if want == Ordering::Equal {
                            ensure!(hash_of(a) == hash_of(b), "hash", "equal values hash differently");
                        }
                    }
                }
                Ok(())
            });
        }
        3 | 4 => {
            // IBig: sign x magnitude routes
            let v = target(m, r);
            let w = if r.bool() { v.clone() } else { target(m, r) };
            let (nv, nw) = (r.bool(), r.bool());
            let (iv, iw) = (int(nv, &limbs_of_nat(&v)), int(nw, &limbs_of_nat(&w)));
            let d = || format!("ibig_routes v={} w={}", show_int(&iv), show_int(&iw));
            let h = gen::hash_limbs(gen::hash_limbs(2 + nv as u64 * 2 + nw as u64, &limbs_of_nat(&v)), &limbs_of_nat(&w));
            m.check("ibig_routes", &format!("{}{}", if nv { '-' } else { '+' }, if nw { '-' } else { '+' }), if v.bits() > 0 { Some(h) } else { None }, &d, || {
                let mk = |r: &mut Rng, val: &BigUint, neg: bool| -> Vec<(String, IBig)> {
                    let mut out = vec![];
                    for (name, u) in routes_u(r, val).into_iter().step_by(2) {
                        out.push((format!("from_parts({})", name), IBig::from_parts(sgn(neg), u.clone())));
                        if neg {
                            out.push((format!("neg({})", name), -IBig::from(u.clone())));
                            out.push((format!("0-({})", name), IBig::ZERO - IBig::from(u.clone())));
                            out.push((format!("mul-1({})", name), IBig::from(u) * IBig::NEG_ONE));
                        } else {
                            out.push((format!("from({})", name), IBig::from(u)));
                        }
                    }
                    let i = int(neg, &limbs_of_nat(val));
                    out.push(("from_le_bytes".into(), if i.is_zero() { IBig::ZERO } else { IBig::from_le_bytes(&i.to_signed_bytes_le()) }));
                    out.push(("parse".into(), IBig::from_str_radix(&i.to_str_radix(10), 10).unwrap()));
                    // in-place clone onto previous values of either sign: a smaller host, a host of the same length
                    // (buffer reused), a slightly longer one (still reusable) and a much longer one (reallocated)
                    let src = IBig::from_parts(sgn(neg), ubig(&limbs_of_nat(val)));
                    let n = limbs_of_nat(val).len();
                    for (hl, hneg) in [(1usize, true), (n, true), (n, false), (n + 1, true), (n + n / 4 + 2, true), (n + 2, false), (3 * n + 9, true)] {
                        let mut host = IBig::from_parts(sgn(hneg), ubig(&gen::shape(r, hl.max(1))));
                        host.clone_from(&src);
                        out.push((format!("clone_from(host {} limbs, {})", hl, if hneg { "negative" } else { "positive" }), host));
                    }
                    out
                };
                let rv = catch(|| mk(r, &v, nv)).or_else(|p| fail("unexpected_panic", p))?;
                let rw = catch(|| mk(r, &w, nw)).or_else(|p| fail("unexpected_panic", p))?;
                let h0 = hash_of(&rv[0].1);
                for (name, x) in &rv {
                    layout::check_i(x).or_else(|e| fail("layout", format!("route {}: {}", name, e)))?;
                    ensure!(int_of(x) == iv, "route_value", "route {} produced {}", name, show_i(x));
                    ensure!(hash_of(x) == h0, "hash", "route {} hashes differently", name);
                    ensure!(*x == rv[0].1 && x.cmp(&rv[0].1) == Ordering::Equal, "eq", "route {} != route {}", name, rv[0].0);
                }
                let want = iv.cmp(&iw);
                for (na, a) in rv.iter().step_by(2) {
                    for (nb, b) in rw.iter().step_by(3) {
                        ensure!(a.cmp(b) == want && b.cmp(a) == want.reverse(), "cmp", "cmp(route {}, route {}) = {:?} want {:?}", na, nb, a.cmp(b), want);
                        ensure!((a == b) == (want == Ordering::Equal), "eq", "== inconsistent with cmp (routes {}, {})", na, nb);
                        if want == Ordering::Equal {
                            ensure!(hash_of(a) == hash_of(b), "hash", "equal values hash differently");
                        }
                    }
                }
                Ok(())
            });
        }
        5 | 6 => {
            // rationals: RBig canonical routes, Relaxed non-reduced twins
            let (n, mut dn) = (nat(&gen::small_mag(r)), nat(&gen::small_mag(r)) + 1u32);
            if r.chance(1, 3) {
                // a denominator 2^a 5^b: the value is a finite decimal (binary when b = 0), floats can hold it exactly
                let (a, b) = (r.usize(40), if r.bool() { 0 } else { r.usize(25) });
                dn = num_traits::Pow::pow(&BigUint::from(2u8), a) * num_traits::Pow::pow(&BigUint::from(5u8), b);
            }
            let neg = r.bool();
            let k = nat(&gen::small_mag(r)) + 1u32;
            let q = BigRational::new(int(neg, &limbs_of_nat(&n)), BigInt::from(dn.clone()));
            let other = match r.below(3) {
                0 => q.clone(),
                1 => &q + BigRational::new(BigInt::one(), BigInt::from(nat(&gen::small_mag(r)) + 1u32)),
                _ => BigRational::new(int(r.bool(), &gen::small_mag(r)), BigInt::from(nat(&gen::small_mag(r)) + 1u32)),
            };
            let d = || format!("ratio_routes q={} other={} k={}", show_q(&q), show_q(&other), show_nat(&k));
            let h = gen::hash_limbs(gen::hash_limbs(gen::hash_limbs(neg as u64, &limbs_of_nat(&n)), &limbs_of_nat(&dn)), &limbs_of_nat(&k));
            m.check("ratio_routes", "", Some(h), &d, || {
                let mk_r = |x: &BigRational, k: &BigUint, r: &mut Rng| -> Vec<(String, RBig)> {
                    let (xn, xd) = (ibig_of_int(x.numer()), ubig_of_nat(x.denom().magnitude()));
                    let ku = ubig_of_nat(k);
                    let ki = IBig::from(ku.clone());
                    let base = RBig::from_parts(xn.clone(), xd.clone());
                    let mut out = vec![("from_parts".to_string(), base.clone())];
                    out.push(("from_parts_nonreduced".into(), RBig::from_parts(&xn * &ki, &xd * &ku)));
                    out.push(("from_parts_signed".into(), RBig::from_parts_signed(-&xn * &ki, -(IBig::from(xd.clone()) * &ki))));
                    let kr = RBig::from_parts(ki.clone(), UBig::ONE + ubig(&gen::small_mag(r)));
                    out.push(("add_sub".into(), (&base + &kr) - &kr));
                    out.push(("mul_div".into(), (&base * &kr) / &kr));
                    out.push(("parse".into(), RBig::from_str(&format!("{}/{}", xn, xd)).unwrap()));
                    out.push(("relaxed_canon".into(), Relaxed::from_parts(&xn * &ki, &xd * &ku).canonicalize()));
                    out.push(("clone".into(), base.clone()));
                    let mut host = RBig::from_parts(ki.clone(), ku.clone());
                    host.clone_from(&base);
                    out.push(("clone_from".into(), host));
                    out.push(("neg_neg".into(), -(-base.clone())));
                    // conversions from floats that hold the value exactly (denominator a product of powers of 2 and 5:
                    // decimal; a power of two: binary and hexadecimal)
                    let mut dd = xd.clone();
                    let (mut a2, mut a5) = (0usize, 0usize);
                    while (&dd % 2u8) == 0u8 && a2 < 400 {
                        dd /= 2u8;
                        a2 += 1;
                    }
                    while (&dd % 5u8) == 0u8 && a5 < 400 {
                        dd /= 5u8;
                        a5 += 1;
                    }
                    if dd == UBig::ONE {
                        let kk = a2.max(a5);
                        let sig = &xn * IBig::from(UBig::from(2u8).pow(kk - a2) * UBig::from(5u8).pow(kk - a5));
                        let f10 = FBig::<mode::HalfAway, 10>::from_parts(sig, -(kk as isize));
                        if let Ok(v) = RBig::try_from(f10.clone()) {
                            out.push(("try_from(DBig)".into(), v));
                        }
                        if let Ok(v) = RBig::try_from(f10.repr().clone()) {
                            out.push(("try_from(Repr<10>)".into(), v));
                        }
                        if a5 == 0 {
                            let f2 = FBig::<mode::Zero, 2>::from_parts(xn.clone(), -(a2 as isize));
                            if let Ok(v) = RBig::try_from(f2) {
                                out.push(("try_from(FBig<2>)".into(), v));
                            }
                            let k16 = (a2 + 3) / 4;
                            let f16 = FBig::<mode::Zero, 16>::from_parts(&xn * IBig::from(UBig::from(2u8).pow(4 * k16 - a2)), -(k16 as isize));
                            if let Ok(v) = RBig::try_from(f16) {
                                out.push(("try_from(FBig<16>)".into(), v));
                            }
                        }
                    }
                    out
                };
                let rq = catch(|| mk_r(&q, &k, r)).or_else(|p| fail("unexpected_panic", p))?;
                let ro = catch(|| mk_r(&other, &k, r)).or_else(|p| fail("unexpected_panic", p))?;
                let h0 = hash_of(&rq[0].1);
                for (name, x) in &rq {
                    ensure!(q_of_rbig(x) == q, "route_value", "route {} produced {}", name, x);
                    let (nn, dd) = (int_of(x.numerator()), nat_of(x.denominator()));
                    ensure!(!dd.is_zero() && num_integer::Integer::gcd(nn.magnitude(), &dd).is_one(), "canonical", "route {}: {}/{} is not in lowest terms", name, show_int(&nn), show_nat(&dd));
                    ensure!(!nn.is_zero() || dd.is_one(), "canonical", "route {}: zero stored as 0/{}", name, show_nat(&dd));
                    ensure!(hash_of(x) == h0, "hash", "route {} hashes differently", name);
                    ensure!(*x == rq[0].1 && x.cmp(&rq[0].1) == Ordering::Equal, "eq", "route {} != from_parts", name);
                }
                let want = q.cmp(&other);
                for (na, a) in &rq {
                    for (nb, b) in ro.iter().step_by(2) {
                        ensure!(a.cmp(b) == want && b.cmp(a) == want.reverse(), "cmp", "rbig cmp(route {}, route {}) = {:?} want {:?}", na, nb, a.cmp(b), want);
                        ensure!((a == b) == (want == Ordering::Equal), "eq", "rbig == inconsistent (routes {}, {})", na, nb);
                    }
                }
                // Relaxed: non-reduced twins compare by value
                let (xn, xd) = (ibig_of_int(q.numer()), ubig_of_nat(q.denom().magnitude()));
                let ku = ubig_of_nat(&k);
                let twins = [
                    Relaxed::from_parts(xn.clone(), xd.clone()),
                    Relaxed::from_parts(&xn * IBig::from(ku.clone()), &xd * &ku),
                    Relaxed::from_parts(&xn * IBig::from(3u8), &xd * UBig::from(3u8)),
                    rq[0].1.clone().relax(),
                ];
                let (on, od) = (ibig_of_int(other.numer()), ubig_of_nat(other.denom().magnitude()));
                let others = [Relaxed::from_parts(on.clone(), od.clone()), Relaxed::from_parts(&on * IBig::from(ku.clone()), &od * &ku)];
                for a in &twins {
                    ensure!(q_of_relaxed(a) == q, "route_value", "relaxed twin has value {}", a);
                    for b in &twins {
                        ensure!(a == b && a.cmp(b) == Ordering::Equal, "eq", "relaxed twins {} and {} compare unequal", a, b);
                    }
                    for b in &others {
                        ensure!(a.cmp(b) == want && b.cmp(a) == want.reverse(), "cmp", "relaxed cmp({}, {}) = {:?} want {:?}", a, b, a.cmp(b), want);
                        ensure!((a == b) == (want == Ordering::Equal), "eq", "relaxed == inconsistent for {} and {}", a, b);
                    }
                }
                Ok(())
            });
        }
        _ => {
            // floats: same value at different precisions / modes; infinities
            let sig = nat(&gen::small_mag(r));
            let neg = r.bool();
            let e = r.range(-300, 300);
            let _base10 = r.bool();
            let k = r.usize(8);
            let other_kind = r.below(5);
            let fb = r.below(4);
            let dlt = r.range(-3, 3);
            let d = || format!("float_routes base={} sig={}{} exp={} k={} other_kind={} dlt={}", [10, 2, 16, 3][fb as usize], if neg { "-" } else { "" }, show_nat(&sig), e, k, other_kind, dlt);
            let h = gen::hash_limbs((e as u64) << 8 ^ k as u64 ^ (fb as u64) << 40 ^ (other_kind << 44) ^ ((dlt + 5) as u64) << 48, &limbs_of_nat(&sig));
            macro_rules! float_case {
                ($B:literal) => {{
                    type F0 = FBig<mode::Zero, $B>;
                    type F1 = FBig<mode::HalfAway, $B>;
                    type F2 = FBig<mode::Up, $B>;
                    let si = ibig(neg, &limbs_of_nat(&sig));
                    let bk = UBig::from($B as u32).pow(k);
                    let a0 = F0::from_parts(si.clone(), e as isize);
                    // same value, k more digits and exponent lowered by k
                    let a1 = F1::from_parts(&si * IBig::from(bk.clone()), e as isize - k as isize);
                    let a2: F2 = a0.clone().with_rounding::<mode::Up>();
                    let a3 = match a0.clone().with_precision(a0.precision() + 20 + k) {
                        Approximation::Exact(v) => v,
                        Approximation::Inexact(v, _) => return fail("flag", format!("with_precision to more digits reported Inexact ({})", v)),
                    };
                    // unlimited precision (0) routes: explicit, and through exact arithmetic on unlimited values
                    let a4 = match a0.clone().with_precision(0) {
                        Approximation::Exact(v) => v,
                        Approximation::Inexact(v, _) => return fail("flag", format!("with_precision(0) reported Inexact ({})", v)),
                    };
                    let a5 = (a4.clone() << 7isize) >> 7isize;
                    let a6 = &a4 * F0::ONE + F0::ZERO;
                    // in-place shifts there and back (zero must stay the canonical zero, not turn into an infinity)
                    let mut a7 = a0.clone();
                    a7 >>= 9isize;
                    a7 <<= 9isize;
                    ensure!(a7 == a0 && a7.cmp(&a0) == Ordering::Equal && q_of_repr(a7.repr()) == q_of_repr(a0.repr()) && a7.repr().is_finite(), "eq", "x >>= 9; x <<= 9 changed the value: {:?} -> {:?}", a0.repr(), a7.repr());
                    fnorm(&a7, "in-place shift round trip")?;
                    let val = q_of_parts(&int(neg, &limbs_of_nat(&sig)), e, $B);
                    ensure!(q_of_repr(a0.repr()) == val && q_of_repr(a1.repr()) == val && q_of_repr(a3.repr()) == val && q_of_repr(a4.repr()) == val && q_of_repr(a5.repr()) == val && q_of_repr(a6.repr()) == val, "route_value", "float routes differ in value");
                    fnorm(&a0, "from_parts")?;
                    fnorm(&a1, "from_parts with trailing zeros")?;
                    fnorm(&a3, "with_precision")?;
                    fnorm(&a5, "shift round trip")?;
                    fnorm(&a6, "x * 1 + 0")?;
                    ensure!(a0 == a1 && a1 == a0 && a0 == a2 && a0 == a3 && a0 == a4 && a4 == a1 && a5 == a0 && a6 == a3, "eq", "equal floats of different precision/mode compare != (precisions {}, {}, {}, {})", a0.precision(), a1.precision(), a3.precision(), a4.precision());
                    ensure!(a0.partial_cmp(&a1) == Some(Ordering::Equal) && a0.partial_cmp(&a2) == Some(Ordering::Equal) && a0.cmp(&a3) == Ordering::Equal && a4.cmp(&a0) == Ordering::Equal && a1.partial_cmp(&a4) == Some(Ordering::Equal) && a5.cmp(&a3) == Ordering::Equal, "cmp", "equal floats do not compare Equal");
                    // another value
                    let ndig = dvh::qref::digits(&int(false, &limbs_of_nat(&sig)), $B) as i64;
                    let (osig, oe): (BigInt, i64) = match other_kind {
                        0 => (int(neg, &limbs_of_nat(&sig)) + dlt, e),
                        1 => (int(neg, &limbs_of_nat(&sig)), e + dlt),
                        2 => (int(neg, &limbs_of_nat(&sig)) * BigInt::from($B as u32) + dlt, e - 1),
                        // a short operand (1..3 digits) whose exponent lies inside the digit span of the long one:
                        // the precision-based shortcuts must not be fooled by a small or an unlimited precision
                        3 => {
                            let hi = if r.bool() { ($B as i64 - 1).max(2) } else { 300 };
                            let mg = r.range(1, hi);
                            (BigInt::from(if neg { -mg } else { mg }), e + r.range(-2, ndig + 2))
                        }
                        _ => (int(r.bool(), &gen::small_mag(r)), r.range(-300, 300)),
                    };
                    let oval = q_of_parts(&osig, oe, $B);
                    let b0 = F0::from_parts(ibig_of_int(&osig), oe as isize);
                    let b1 = F1::from_parts(ibig_of_int(&osig) * IBig::from(bk.clone()), oe as isize - k as isize);
                    let want = val.cmp(&oval);
                    ensure!(a0.cmp(&b0) == want && b0.cmp(&a0) == want.reverse(), "cmp", "cmp({}, {}) = {:?} want {:?}", a0, b0, a0.cmp(&b0), want);
                    ensure!(a1.cmp(&b1) == want && a0.partial_cmp(&b1) == Some(want) && a3.cmp(&b0) == want, "cmp", "cmp across precisions != {:?}", want);
                    let b4 = b0.clone().with_precision(0).value();
                    ensure!(a4.cmp(&b0) == want && b0.cmp(&a4) == want.reverse() && a0.cmp(&b4) == want && b4.partial_cmp(&a1) == Some(want.reverse()) && a4.cmp(&b4) == want && a6.partial_cmp(&b1) == Some(want),
                        "cmp", "cmp with an unlimited-precision operand != {:?} (a: {} digits, precisions a0={} b0={})", want, ndig, a0.precision(), b0.precision());
                    ensure!((a4 == b0) == (want == Ordering::Equal) && (b4 == a1) == (want == Ordering::Equal), "eq", "== with an unlimited-precision operand inconsistent with exact values");
                    {
                        use dashu_base::AbsOrd;
                        let wabs = num_traits::Signed::abs(&val).cmp(&num_traits::Signed::abs(&oval));
                        ensure!(a4.abs_cmp(&b0) == wabs && b0.abs_cmp(&a4) == wabs.reverse() && a0.abs_cmp(&b4) == wabs, "abs_cmp", "abs_cmp != {:?}", wabs);
                    }
                    ensure!((a0 == b0) == (want == Ordering::Equal) && (a0 == b1) == (want == Ordering::Equal), "eq", "== inconsistent with exact values");
                    // values produced by arithmetic on operands of different precisions, in every ownership form and
                    // operand order: the forms are the same value, so they must be == and order alike against any probe
                    let lo = F0::from_parts(IBig::from(if neg { -1 } else { 1 } * (1 + (k as i64 % 7))), (e + ndig / 2) as isize);
                    let sums: [F0; 8] = [
                        a3.clone() + lo.clone(), &a3 + lo.clone(), a3.clone() + &lo, &a3 + &lo,
                        lo.clone() + a3.clone(), &lo + a3.clone(), lo.clone() + &a3, &lo + &a3,
                    ];
                    let diffs: [F0; 4] = [a3.clone() - lo.clone(), &a3 - lo.clone(), a3.clone() - &lo, &a3 - &lo];
                    for group in [&sums[..], &diffs[..]] {
                        for (gi, v) in group.iter().enumerate() {
                            fnorm(v, "sum of operands with different precisions")?;
                            ensure!(*v == group[0] && v.cmp(&group[0]) == Ordering::Equal, "eq", "call form #{} of a mixed-precision sum differs from form #0 ({:?} vs {:?})", gi, v.repr(), group[0].repr());
                            for probe in [&b0, &b4, &a0, &lo] {
                                ensure!(v.cmp(probe) == group[0].cmp(probe) && probe.cmp(v) == probe.cmp(&group[0]), "cmp",
                                    "equal sums order differently against {:?}: form #{} (precision {}) gives {:?}, form #0 (precision {}) gives {:?}", probe.repr(), gi, v.precision(), v.cmp(probe), group[0].precision(), group[0].cmp(probe));
                            }
                        }
                    }
                    // infinities
                    let (pinf, ninf) = (F0::INFINITY, F0::NEG_INFINITY);
                    ensure!(a0 < pinf && a0 > ninf && ninf < pinf && pinf == F0::INFINITY && ninf == F0::NEG_INFINITY && pinf != ninf && a0 != pinf && a0 != ninf, "inf", "infinity ordering wrong against {}", a0);
                    ensure!(pinf.cmp(&pinf) == Ordering::Equal && ninf.cmp(&ninf) == Ordering::Equal && pinf.cmp(&a0) == Ordering::Greater && ninf.cmp(&a0) == Ordering::Less, "inf", "infinity cmp wrong");
                    // infinities produced by negation / with_precision / clone are the same values
                    let (np, nn) = (-pinf.clone(), -ninf.clone());
                    ensure!(np == ninf && nn == pinf && np.cmp(&ninf) == Ordering::Equal && nn.cmp(&pinf) == Ordering::Equal && np < a0 && nn > a0, "inf", "negated infinities: -(+inf) = {:?}, -(-inf) = {:?}", np.repr(), nn.repr());
                    let wp = pinf.clone().with_precision(3 + k).value();
                    ensure!(wp == pinf && wp.cmp(&pinf) == Ordering::Equal && wp > a0, "inf", "+inf with a limited precision is {:?}", wp.repr());
                    ensure!(-a0.clone() == F0::from_parts(-si.clone(), e as isize) && (-(-a0.clone())) == a0, "eq", "negation route");
                    let _ = a0.repr().significand().bit_len();
                    Ok(())
                }};
            }
            match fb {
                0 => m.check("float_routes", "b10", Some(h), &d, || float_case!(10)),
                1 => m.check("float_routes", "b2", Some(h), &d, || float_case!(2)),
                2 => m.check("float_routes", "b16", Some(h), &d, || float_case!(16)),
                _ => m.check("float_routes", "b3", Some(h), &d, || float_case!(3)),
            }
            // values produced by conversions between power-related bases
            let (csig, ce) = (nat(&gen::small_mag(r)), r.range(-40, 40));
            let cneg = r.bool();
            let pair = r.below(6);
            let d2 = || format!("float_conv_routes pair={} sig={}{} exp={}", pair, if cneg { "-" } else { "" }, show_nat(&csig), ce);
            let h2 = gen::hash_limbs((ce as u64) << 8 ^ pair << 50, &limbs_of_nat(&csig));
            let (ps1, ps2, pe, pb, pu) = (1 + r.below(1500), 1 + r.below(300), r.range(-40, 40), r.below(8), r.bool());
            m.check("float_pow_routes", &format!("b#{}", pb), Some(ps1 ^ ps2 << 16 ^ (pe as u64) << 32 ^ pb << 48 ^ (cneg as u64) << 52 ^ (pu as u64) << 53), &|| format!("float_pow_routes base#{} (of 4, 8, 9, 16, 36, 10, 2, 3) x={}{}*B^{} y={}*B^{} unlimited={}", pb, if cneg { "-" } else { "" }, ps1, pe, ps2, -pe / 2, pu), || match pb {
                0 => pow_route::<4>(cneg, ps1, ps2, pe, pu),
                1 => pow_route::<8>(cneg, ps1, ps2, pe, pu),
                2 => pow_route::<9>(cneg, ps1, ps2, pe, pu),
                3 => pow_route::<16>(cneg, ps1, ps2, pe, pu),
                4 => pow_route::<36>(cneg, ps1, ps2, pe, pu),
                5 => pow_route::<10>(cneg, ps1, ps2, pe, pu),
                6 => pow_route::<2>(cneg, ps1, ps2, pe, pu),
                _ => pow_route::<3>(cneg, ps1, ps2, pe, pu),
            });
            m.check("float_conv_routes", "conv", Some(h2), &d2, || match pair {
                0 => conv_route::<16, 2>(cneg, &csig, ce, 4),
                1 => conv_route::<8, 2>(cneg, &csig, ce, 3),
                2 => conv_route::<4, 2>(cneg, &csig, ce, 2),
                3 => conv_route::<100, 10>(cneg, &csig, ce, 2),
                4 => conv_route::<9, 3>(cneg, &csig, ce, 2),
                _ => conv_route::<16, 4>(cneg, &csig, ce, 2),
            });
        }
    }
}

fn main() {
    mon::main(Spec {
        prop: "C05",
        quick_cases: 400_000,
        thorough_cases: 6_000_000,
        rule: "One target value (0, around 2^64/2^128/2^192/2^256, 2^n-1, 1..3 limbs, long) is produced by ~30 routes (from_words incl. zero padding, bytes, parsing in 3 radices, (v+k)-k, (v*k)/k, shifts, clone, clone_from onto 8 host sizes, split/rejoin, chunks, set/clear bit, primitives, UBig::ones, via IBig, masks, mem::take); every pair must be ==, cmp Equal, hash-equal and have a canonical layout (hook); routes of a neighbour value w must order like the model. IBig adds sign routes; RBig adds non-reduced / signed-denominator / arithmetic / parse / canonicalize routes (lowest terms checked) and Relaxed non-reduced twins; FBig compares equal values at different precisions, modes and trailing-zero forms, neighbours by significand/exponent, and infinities. non-trivial = non-zero target.",
        assumptions: &["std DefaultHasher with its fixed default keys", "num-bigint / num-rational ordering"],
        required: &[("ubig_routes", false), ("ibig_routes", false), ("ratio_routes", false), ("float_routes/b2", false), ("float_routes/b10", false)],
        case,
        selftest: None,
        panic_finding: None,
    });
}
