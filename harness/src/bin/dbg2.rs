use dashu_base::ExtendedGcd;
use dashu_int::IBig;
use dvh::conv::*;
use dvh::rng::Rng;
use num_bigint::BigUint;
use num_traits::{One, Zero};
fn main() {
    dvh::mon::install_panic_hook();
    let mut r = Rng::new(7);
    let mut best: Option<(usize, String)> = None;
    for it in 0..3_000_000u64 {
        let (mut x, mut y) = (BigUint::one(), BigUint::zero());
        let steps = 1 + r.usize(40);
        let mut qs = vec![];
        for _ in 0..steps {
            let q = match r.below(8) {
                0 => BigUint::from(r.u64()) << (r.below(3) * 32) as usize,
                1 => BigUint::from(r.word()),
                _ => BigUint::from(1 + r.below(3)),
            };
            qs.push(q.clone());
            let nx = &q * &x + &y;
            y = x;
            x = nx;
        }
        let (a, b) = (limbs_of_nat(&x), limbs_of_nat(&y));
        if b.len() < 3 { continue; }
        let (xx, yy) = (ubig(&a), ubig(&b));
        let res = dvh::mon::catch(|| (&xx).gcd_ext(&yy));
        let bad = match &res {
            Ok((g, s, t)) => IBig::from(xx.clone()) * s + IBig::from(yy.clone()) * t != IBig::from(g.clone()),
            Err(_) => true,
        };
        if bad {
            let sz = a.len() + b.len();
            if best.as_ref().map_or(true, |b| sz < b.0) {
                let s = format!("it={} la={} lb={} a={} b={} qs={:?} res={}", it, a.len(), b.len(), dvh::gen::hex(&a), dvh::gen::hex(&b), qs.iter().rev().map(|q| format!("{:x}", q)).collect::<Vec<_>>(), res.map(|_| "wrong".to_string()).unwrap_or_else(|e| e));
                println!("{}", s);
                best = Some((sz, s));
            }
        }
    }
}
