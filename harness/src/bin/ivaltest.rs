use num_bigint::BigInt;
use num_rational::BigRational;
fn main() {
    let t = std::time::Instant::now();
    println!("{:?} in {:?}", dvh::ival::selftest(), t.elapsed());
    // print high-precision values for external comparison
    for (n, d) in [(3i64, 7i64), (123456789, 1000), (1, 1000000), (-5, 3), (-1000, 1), (2000, 3)] {
        let x = BigRational::new(BigInt::from(n), BigInt::from(d));
        let t = std::time::Instant::now();
        let e = dvh::ival::exp_q(&x, 400).unwrap();
        println!("exp {}/{} n={} lo={} hi={} t={:?}", n, d, e.n, e.iv.lo, e.iv.hi, t.elapsed());
        if n > 0 {
            let l = dvh::ival::ln_q(&x, 400);
            println!("ln {}/{} lo={} hi={}", n, d, l.lo, l.hi);
        }
    }
    let t = std::time::Instant::now();
    let x = BigRational::new(BigInt::from(123456789), BigInt::from(1000));
    let _ = dvh::ival::ln_q(&x, 3400);
    let _ = dvh::ival::exp_q(&BigRational::new(BigInt::from(3), BigInt::from(7)), 3400);
    println!("k=3400 ln+exp {:?}", t.elapsed());
}
