//! C06 — conversions are lossless or refused; lossy ones are correctly rounded and say so.
use dashu_base::{Approximation, ConversionError, FloatEncoding, Sign};
use dashu_float::{round::mode, FBig, Repr};
use dashu_int::{IBig, UBig, Word};
use dashu_ratio::{RBig, Relaxed};
use dvh::conv::*;
use dvh::ensure;
use dvh::gen;
use dvh::ieee::{self, round_to, IeeeVal, F32, F64};
use dvh::mon::{self, catch, fail, fail_kf, Mon, Spec, R};
use dvh::qref::{self, check_contract, digits, Flag, Mode, ModeTag};
use dvh::rng::Rng;
use num_bigint::{BigInt, BigUint};
use num_rational::BigRational;
use num_traits::{One, Pow, Signed, Zero};
use std::cmp::Ordering;
use std::num::FpCategory;

/// bit-for-bit, except that a zero result only has to carry the sign of the (non-zero) value it was rounded from:
/// the correctly rounded image of a negative value that underflows is -0.0; an exact zero has no sign to keep
fn same64(got: f64, want: &IeeeVal, x: &BigRational) -> bool {
    let w = want.to_f64();
    got.to_bits() == w.to_bits() || (got == 0.0 && w == 0.0 && (x.is_zero() || got.is_sign_negative() == x.is_negative()))
}
fn same32(got: f32, want: &IeeeVal, x: &BigRational) -> bool {
    let w = want.to_f32();
    got.to_bits() == w.to_bits() || (got == 0.0 && w == 0.0 && (x.is_zero() || got.is_sign_negative() == x.is_negative()))
}
fn ord_of_sign(s: Sign) -> Ordering {
    match s {
        Sign::Positive => Ordering::Greater,
        Sign::Negative => Ordering::Less,
    }
}

/// judge an Approximation<float, Sign> against the reference (HalfEven)
fn judge_sign64(x: &BigRational, got: &Approximation<f64, Sign>, what: &str) -> R {
    let (want, ord) = round_to(x, F64, Mode::HalfEven);
    let (v, flag) = match got {
        Approximation::Exact(v) => (*v, Ordering::Equal),
        Approximation::Inexact(v, s) => (*v, ord_of_sign(*s)),
    };
    ensure!(same64(v, &want, x), "misrounded", "{}: got {:e} (bits {:#x}) want {:e} (bits {:#x})", what, v, v.to_bits(), want.to_f64(), want.to_f64().to_bits());
    ensure!((flag == Ordering::Equal) == (ord == Ordering::Equal), "exact_flag", "{}: reported {} but the conversion is {}", what, if flag == Ordering::Equal { "Exact" } else { "Inexact" }, if ord == Ordering::Equal { "exact" } else { "inexact" });
    ensure!(flag == ord, "error_sign", "{}: reported error sign {:?} but result - value is {:?}", what, flag, ord);
    Ok(())
}
fn judge_sign32(x: &BigRational, got: &Approximation<f32, Sign>, what: &str) -> R {
    let (want, ord) = round_to(x, F32, Mode::HalfEven);
    let (v, flag) = match got {
        Approximation::Exact(v) => (*v, Ordering::Equal),
        Approximation::Inexact(v, s) => (*v, ord_of_sign(*s)),
    };
    ensure!(same32(v, &want, x), "misrounded", "{}: got {:e} (bits {:#x}) want {:e} (bits {:#x})", what, v, v.to_bits(), want.to_f32(), want.to_f32().to_bits());
    ensure!((flag == Ordering::Equal) == (ord == Ordering::Equal), "exact_flag", "{}: reported {} but the conversion is {}", what, if flag == Ordering::Equal { "Exact" } else { "Inexact" }, if ord == Ordering::Equal { "exact" } else { "inexact" });
    ensure!(flag == ord, "error_sign", "{}: reported error sign {:?} but result - value is {:?}", what, flag, ord);
    Ok(())
}

/// integers around the interesting thresholds
fn int_value(m: &Mon, r: &mut Rng) -> BigUint {
    let k = match r.below(8) {
        0 => 24,
        1 => 53,
        2 => 64,
        3 => 128,
        4 => 1024,
        5 => *r.pick(&[25usize, 54, 127, 129, 1023, 1025, 149, 1074]),
        _ => 1 + r.usize(if m.thorough() { 3000 } else { 400 }),
    };
    let half_ulp = |bits: usize| if k >= bits { BigUint::one() << (k - bits) } else { BigUint::zero() };
    let base = BigUint::one() << k;
    let delta = match r.below(10) {
        0 => BigInt::zero(),
        1 => BigInt::one(),
        2 => -BigInt::one(),
        3 => BigInt::from(half_ulp(24)),
        4 => BigInt::from(half_ulp(53)),
        5 => BigInt::from(half_ulp(24)) + r.range(-1, 1),
        6 => BigInt::from(half_ulp(53)) + r.range(-1, 1),
        7 => BigInt::from(half_ulp(24) * 3u32),
        8 => BigInt::from(half_ulp(53) * 3u32),
        _ => BigInt::from(nat(&gen::mag(r, k / 64 + 1)) % &base),
    };
    let v = BigInt::from(base) + delta;
    if r.chance(1, 5) {
        nat(&gen::mag(r, 40))
    } else {
        v.magnitude().clone()
    }
}

macro_rules! prim_roundtrip {
    ($t:ty, $v:expr, $big:expr, $model:expr) => {{
        // big -> primitive succeeds iff in range, with the exact value; the error is OutOfBounds
        let fits = $model >= BigInt::from(<$t>::MIN) && $model <= BigInt::from(<$t>::MAX);
        match <$t>::try_from($big) {
            Ok(p) => {
                ensure!(fits && BigInt::from(p) == $model, "lossy_success", "{}::try_from({}) = {}", stringify!($t), show_int(&$model), p);
            }
            Err(e) => {
                ensure!(!fits, "refused_representable", "{}::try_from({}) = Err({:?}) although it fits", stringify!($t), show_int(&$model), e);
                ensure!(e == ConversionError::OutOfBounds, "error_kind", "{}::try_from({}) = Err({:?})", stringify!($t), show_int(&$model), e);
            }
        }
    }};
}

fn case(m: &mut Mon, r: &mut Rng, idx: u64) {
    // exhaustive binary32 decode/encode sweep in the thorough tier: 4096 slices of 2^20 patterns
    if m.thorough() && idx < 4096 {
        m.check("f32_exhaustive", "", Some(idx), &|| format!("all f32 bit patterns {:#x}..{:#x}", idx << 20, ((idx + 1) << 20) - 1), || {
            for b in (idx << 20)..((idx + 1) << 20) {
                f32_codec(b as u32)?;
            }
            Ok(())
        });
        m.note_n("f32_patterns", 1 << 20);
        return;
    }
    match r.below(24) {
        0 | 1 => {
            // primitives <-> big integers
            let w = r.word();
            let wide = ((w as u128) << 64) | r.word() as u128;
            let big = int(r.bool(), &gen::small_mag(r));
            let d = || format!("prim_int w={:#x} big={}", w, show_int(&big));
            m.check("prim_int", "", Some(w ^ gen::hash_limbs(1, &limbs_of_nat(big.magnitude()))), &d, || {
                macro_rules! from_unsigned {
                    ($t:ty, $v:expr) => {{
                        let v: $t = $v;
                        ensure!(int_of(&IBig::from(v)) == BigInt::from(v), "lossy_success", "IBig::from({}{})", v, stringify!($t));
                        ensure!(BigInt::from(nat_of(&UBig::from(v))) == BigInt::from(v), "lossy_success", "UBig::from({}{})", v, stringify!($t));
                        ensure!(<$t>::try_from(IBig::from(v)) == Ok(v) && <$t>::try_from(UBig::from(v)) == Ok(v), "roundtrip", "{} -> big -> {} changed", v, stringify!($t));
                    }};
                }
                macro_rules! from_signed {
                    ($t:ty, $v:expr) => {{
                        let v: $t = $v;
                        ensure!(int_of(&IBig::from(v)) == BigInt::from(v), "lossy_success", "IBig::from({}{})", v, stringify!($t));
                        match UBig::try_from(v) {
                            Ok(u) => ensure!(BigInt::from(nat_of(&u)) == BigInt::from(v), "lossy_success", "UBig::try_from({}{})", v, stringify!($t)),
                            Err(e) => ensure!(v < 0 && e == ConversionError::OutOfBounds, "refused_representable", "UBig::try_from({}{}) = Err({:?})", v, stringify!($t), e),
                        }
                        ensure!(<$t>::try_from(IBig::from(v)) == Ok(v), "roundtrip", "{} -> IBig -> {} changed", v, stringify!($t));
                    }};
                }
                from_unsigned!(u8, w as u8);
                from_unsigned!(u16, w as u16);
                from_unsigned!(u32, w as u32);
                from_unsigned!(u64, w);
                from_unsigned!(u128, wide);
                from_unsigned!(usize, w as usize);
                from_signed!(i8, w as i8);
                from_signed!(i16, w as i16);
                from_signed!(i32, w as i32);
                from_signed!(i64, w as i64);
                from_signed!(i128, wide as i128);
                from_signed!(isize, w as isize);
                // big -> every primitive, values at the limits
                for cand in [big.clone(), BigInt::from(wide), -BigInt::from(wide >> 1), BigInt::from(w as i64), BigInt::from(u64::MAX) + 1, BigInt::from(i64::MIN) - 1, BigInt::from(i128::MIN), BigInt::from(u128::MAX) + 1, BigInt::from(255), BigInt::from(256), BigInt::from(-128), BigInt::from(-129)] {
                    let ib = ibig_of_int(&cand);
                    prim_roundtrip!(u8, cand, ib.clone(), cand);
                    prim_roundtrip!(u16, cand, ib.clone(), cand);
                    prim_roundtrip!(u32, cand, ib.clone(), cand);
                    prim_roundtrip!(u64, cand, ib.clone(), cand);
                    prim_roundtrip!(u128, cand, ib.clone(), cand);
                    prim_roundtrip!(usize, cand, ib.clone(), cand);
                    prim_roundtrip!(i8, cand, ib.clone(), cand);
                    prim_roundtrip!(i16, cand, ib.clone(), cand);
                    prim_roundtrip!(i32, cand, ib.clone(), cand);
                    prim_roundtrip!(i64, cand, ib.clone(), cand);
                    prim_roundtrip!(i128, cand, ib.clone(), cand);
                    prim_roundtrip!(isize, cand, ib.clone(), cand);
                    if !cand.is_negative() {
                        let ub = ubig_of_nat(cand.magnitude());
                        prim_roundtrip!(u8, cand, ub.clone(), cand);
                        prim_roundtrip!(u64, cand, ub.clone(), cand);
                        prim_roundtrip!(i64, cand, ub.clone(), cand);
                        prim_roundtrip!(i128, cand, &ub, cand);
                        prim_roundtrip!(u128, cand, &ub, cand);
                    }
                    match UBig::try_from(ib.clone()) {
                        Ok(u) => ensure!(!cand.is_negative() && BigInt::from(nat_of(&u)) == cand, "lossy_success", "UBig::try_from(IBig {})", show_int(&cand)),
                        Err(e) => ensure!(cand.is_negative() && e == ConversionError::OutOfBounds, "refused_representable", "UBig::try_from(IBig {}) = Err({:?})", show_int(&cand), e),
                    }
                }
                Ok(())
            });
        }
        2 | 3 | 4 => {
            // integers -> f32 / f64 (correctly rounded, flagged)
            let v = int_value(m, r);
            let neg = r.bool();
            let vl = limbs_of_nat(&v);
            let (u, i) = (ubig(&vl), ibig(neg, &vl));
            let xq = BigRational::from_integer(BigInt::from(v.clone()));
            let xi = BigRational::from_integer(int(neg, &vl));
            let d = || format!("int_to_float v={}{}", if neg { "-" } else { "" }, gen::hex(&vl));
            m.check("int_to_float", gen::size_class(vl.len()), if vl.is_empty() { None } else { Some(gen::hash_limbs(neg as u64, &vl)) }, &d, || {
                judge_sign32(&xq, &catch(|| u.to_f32()).or_else(|p| fail("unexpected_panic", p))?, "UBig::to_f32")?;
                judge_sign64(&xq, &catch(|| u.to_f64()).or_else(|p| fail("unexpected_panic", p))?, "UBig::to_f64")?;
                judge_sign32(&xi, &catch(|| i.to_f32()).or_else(|p| fail("unexpected_panic", p))?, "IBig::to_f32")?;
                judge_sign64(&xi, &catch(|| i.to_f64()).or_else(|p| fail("unexpected_panic", p))?, "IBig::to_f64")?;
                // TryFrom<big> for float: success only with the exact value
                if let Ok(f) = f64::try_from(u.clone()) {
                    ensure!(ieee::q_of_f64(f) == Some(xq.clone()), "lossy_success", "f64::try_from(UBig) = {:e} differs from the integer", f);
                }
                if let Ok(f) = f32::try_from(i.clone()) {
                    ensure!(ieee::q_of_f64(f as f64) == Some(xi.clone()), "lossy_success", "f32::try_from(IBig) = {:e} differs from the integer", f);
                }
                if let Ok(f) = f64::try_from(i.clone()) {
                    ensure!(ieee::q_of_f64(f) == Some(xi.clone()), "lossy_success", "f64::try_from(IBig) = {:e} differs from the integer", f);
                }
                Ok(())
            });
        }
        5 | 6 => {
            // f32/f64 -> big integers / rationals / binary floats: exact or refused
            let bits = r.u64();
            let f = match r.below(8) {
                0 => f64::NAN,
                1 => f64::INFINITY * if r.bool() { 1.0 } else { -1.0 },
                2 => if r.bool() { 0.0 } else { -0.0 },
                3 => (r.u64() >> r.below(64)) as f64 * if r.bool() { 1.0 } else { -1.0 },
                4 => ((r.u64() >> 11) as f64) / 2f64.powi(r.range(1, 60) as i32),
                5 => f64::from_bits(bits & 0x800f_ffff_ffff_ffff), // subnormal
                _ => f64::from_bits(bits),
            };
            let f3 = match r.below(3) {
                0 => f as f32,
                _ => f32::from_bits(r.u32()),
            };
            let d = || format!("float_to_big f64={:e} (bits {:#x}) f32={:e} (bits {:#x})", f, f.to_bits(), f3, f3.to_bits());
            m.check("float_to_big", if f.is_finite() { "finite" } else { "special" }, Some(f.to_bits() ^ (f3.to_bits() as u64) << 1), &d, || {
                macro_rules! one {
                    ($fl:expr) => {{
                        let fl = $fl;
                        let xq = ieee::q_of_f64(fl as f64);
                        let ri = catch(|| IBig::try_from(fl)).or_else(|p| fail("unexpected_panic", p))?;
                        let ru = catch(|| UBig::try_from(fl)).or_else(|p| fail("unexpected_panic", p))?;
                        match (&xq, ri) {
                            (None, Ok(v)) => return fail("lossy_success", format!("IBig::try_from({:e}) = {}", fl, v)),
                            (None, Err(e)) => ensure!(e == ConversionError::OutOfBounds, "error_kind", "IBig::try_from({:e}) = Err({:?})", fl, e),
                            (Some(x), Ok(v)) => ensure!(BigRational::from_integer(int_of(&v)) == *x, "lossy_success", "IBig::try_from({:e}) = {} (the float is not that integer)", fl, v),
                            (Some(x), Err(e)) => ensure!(!x.is_integer() && e == ConversionError::LossOfPrecision, "refused_representable", "IBig::try_from({:e}) = Err({:?})", fl, e),
                        }
                        match (&xq, ru) {
                            (None, Ok(v)) => return fail("lossy_success", format!("UBig::try_from({:e}) = {}", fl, v)),
                            (None, Err(e)) => ensure!(e == ConversionError::OutOfBounds, "error_kind", "UBig::try_from({:e}) = Err({:?})", fl, e),
                            (Some(x), Ok(v)) => ensure!(BigRational::from_integer(BigInt::from(nat_of(&v))) == *x, "lossy_success", "UBig::try_from({:e}) = {} (the float is not that integer)", fl, v),
                            (Some(x), Err(e)) => ensure!(!x.is_integer() || x.is_negative(), "refused_representable", "UBig::try_from({:e}) = Err({:?})", fl, e),
                        }
                        // rationals: always exact for finite input
                        let rq = catch(|| RBig::try_from(fl)).or_else(|p| fail("unexpected_panic", p))?;
                        let rx = catch(|| Relaxed::try_from(fl)).or_else(|p| fail("unexpected_panic", p))?;
                        match (&xq, rq, rx) {
                            (None, Err(_), Err(_)) => {}
                            (Some(x), Ok(a), Ok(b)) => {
                                ensure!(q_of_rbig(&a) == *x && q_of_relaxed(&b) == *x, "lossy_success", "RBig/Relaxed::try_from({:e}) = {} / {}", fl, a, b);
                                let g = num_integer::Integer::gcd(int_of(a.numerator()).magnitude(), &nat_of(a.denominator()));
                                ensure!(g.is_one() || x.is_zero(), "canonical", "RBig::try_from({:e}) = {} is not reduced", fl, a);
                            }
                            (x, a, b) => return fail("refused_representable", format!("RBig/Relaxed::try_from({:e}): finite={} results {:?} / {:?}", fl, x.is_some(), a.map(|v| v.to_string()), b.map(|v| v.to_string()))),
                        }
                        // binary floats: exact, infinities map to infinities, NaN refused
                        let ff = catch(|| FBig::<mode::Zero, 2>::try_from(fl)).or_else(|p| fail("unexpected_panic", p))?;
                        let rr = catch(|| Repr::<2>::try_from(fl)).or_else(|p| fail("unexpected_panic", p))?;
                        if fl.is_nan() {
                            ensure!(ff.is_err() && rr.is_err(), "lossy_success", "NaN converted to a float");
                        } else if fl.is_infinite() {
                            let v = ff.or_else(|e| fail("refused_representable", format!("{:?}", e)))?;
                            ensure!(v.repr().is_infinite() && (v.repr().sign() == Sign::Negative) == (fl < 0.0), "lossy_success", "infinity converted to {}", v);
                        } else {
                            let v = ff.or_else(|e| fail("refused_representable", format!("FBig::try_from({:e}) = Err({:?})", fl, e)))?;
                            ensure!(Some(q_of_repr(v.repr())) == xq, "lossy_success", "FBig::try_from({:e}) = {}", fl, v);
                            ensure!(Some(q_of_repr(&rr.or_else(|e| fail("refused_representable", format!("{:?}", e)))?)) == xq, "lossy_success", "Repr::try_from({:e})", fl);
                            // and back
                            let back = catch(|| v.to_f64()).or_else(|p| fail("unexpected_panic", p))?;
                            ensure!(Flag::of(&back) == Flag::Exact && back.value() == fl as f64, "roundtrip", "float -> FBig -> to_f64 gives {:?} for {:e}", back, fl);
                        }
                    }};
                }
                one!(f);
                one!(f3);
                Ok(())
            });
        }
        7 | 8 | 9 => {
            // rationals -> f32 / f64 / fast variants / TryFrom
            let (nl, dl) = match r.below(8) {
                0 => {
                    // quotient needing exactly 53/54 (24/25) bits, ties and near ties
                    let bits = *r.pick(&[24usize, 25, 53, 54]);
                    let q = (nat(&[r.u64(), r.u64()]) >> (128 - bits)) | (BigUint::one() << (bits - 1));
                    let den = nat(&gen::small_mag(r)) + 1u32;
                    let extra = match r.below(4) {
                        0 => BigUint::zero(),
                        1 => &den / 2u32,
                        2 => &den / 2u32 + 1u32,
                        _ => BigUint::one(),
                    };
                    (limbs_of_nat(&(q * &den + extra)), limbs_of_nat(&den))
                }
                1 => {
                    // 300-word numerators one bit off a tie
                    let n = gen::shape(r, 300);
                    (n, gen::shape(r, 290))
                }
                2 => {
                    // subnormal range and below
                    let mut d = vec![0u64; 16 + r.usize(3)];
                    d.push(r.word().max(1));
                    (gen::small_mag(r), d)
                }
                3 => {
                    // near overflow
                    let mut n = vec![0u64; 15 + r.usize(3)];
                    n.push(r.word().max(1));
                    (n, gen::small_mag(r))
                }
                4 => (vec![r.u64() >> 11], vec![r.u64() >> 11]), // both < 2^53: hardware cross-check
                5 => {
                    // the top binades of f32 and f64: bit_len(num) - bit_len(den) is 127..129 / 1023..1025, with a
                    // numerator whose leading bits may be below or above those of the denominator
                    let dn = 1 + r.usize(2);
                    let dl = { let mut d = gen::shape(r, dn); if gen::nlimbs(&d) == 0 { d = vec![3]; } d };
                    let nm = nat(&[r.u64() | 1, r.u64() >> r.below(64)]);
                    let target = *r.pick(&[127i64, 128, 129, 1023, 1024, 1025]);
                    let sh = target - (nm.bits() as i64 - nat(&dl).bits() as i64);
                    (limbs_of_nat(&(nm << sh.max(0) as usize)), dl)
                }
                _ => (gen::mag(r, 40), gen::mag(r, 40)),
            };
            if gen::nlimbs(&dl) == 0 {
                return;
            }
            let neg = r.bool();
            let x = BigRational::new(int(neg, &nl), BigInt::from(nat(&dl)));
            let d = || format!("ratio_to_float x={}{}/{}", if neg { "-" } else { "" }, gen::hex(&nl), gen::hex(&dl));
            let h = gen::hash_limbs(gen::hash_limbs(neg as u64, &nl), &dl);
            m.check("ratio_to_float", &format!("{}x{}", gen::size_class(gen::nlimbs(&nl)), gen::size_class(gen::nlimbs(&dl))), Some(h), &d, || {
                let q = RBig::from_parts(ibig(neg, &nl), ubig(&dl));
                let rx = Relaxed::from_parts(ibig(neg, &nl), ubig(&dl));
                judge_sign64(&x, &catch(|| q.to_f64()).or_else(|p| fail("unexpected_panic", p))?, "RBig::to_f64")?;
                judge_sign32(&x, &catch(|| q.to_f32()).or_else(|p| fail("unexpected_panic", p))?, "RBig::to_f32")?;
                judge_sign64(&x, &catch(|| rx.to_f64()).or_else(|p| fail("unexpected_panic", p))?, "Relaxed::to_f64")?;
                judge_sign32(&x, &catch(|| rx.to_f32()).or_else(|p| fail("unexpected_panic", p))?, "Relaxed::to_f32")?;
                // hardware cross-check
                if nl.len() == 1 && dl.len() == 1 && nl[0] < (1 << 53) && dl[0] < (1 << 53) {
                    let hw = (nl[0] as f64) / (dl[0] as f64) * if neg { -1.0 } else { 1.0 };
                    ensure!(q.to_f64().value() == hw, "misrounded", "RBig::to_f64 = {:e} but hardware division gives {:e}", q.to_f64().value(), hw);
                }
                // fast variants: documented as "the mantissa can be off by one bit"; the property only asks for a bounded
                // error, so the monitor allows 4 ulp of the exact value and demands a finite result for a value that is
                // far from the overflow threshold (a looser test than the documentation, never a tighter one)
                let f64f = catch(|| q.to_f64_fast()).or_else(|p| fail("unexpected_panic", p))?;
                let f32f = catch(|| q.to_f32_fast()).or_else(|p| fail("unexpected_panic", p))?;
                for (what, got, mant, emax, emin) in [("to_f64_fast", f64f, 53i64, 1024i64, -1074i64), ("to_f32_fast", f32f as f64, 24, 128, -149)] {
                    if x.is_zero() {
                        ensure!(got == 0.0, "fast_bound", "{}(0) = {:e}", what, got);
                        continue;
                    }
                    let lg = dvh::ival::floor_log(&x.abs(), 2);
                    let ulp = pow_q(2, (lg - mant + 1).max(emin));
                    if lg >= emax || x.abs() >= pow_q(2, emax) - &ulp * BigRational::from_integer(BigInt::from(4)) {
                        continue; // at or above the overflow threshold: infinity or the largest finite value are both acceptable
                    }
                    ensure!(got.is_finite(), "fast_bound", "{} = {:e} for a finite value of magnitude 2^{}", what, got, lg);
                    let gq = ieee::q_of_f64(got).unwrap();
                    ensure!((&gq - &x).abs() <= &ulp * BigRational::from_integer(BigInt::from(4)), "fast_bound", "{} = {:e} is more than 4 ulp away from the value", what, got);
                }
                // TryFrom<RBig> for floats: success only when exact
                if let Ok(f) = f64::try_from(q.clone()) {
                    ensure!(ieee::q_of_f64(f) == Some(x.clone()), "lossy_success", "f64::try_from(RBig) = {:e} is not the rational", f);
                }
                if let Ok(f) = f32::try_from(rx.clone()) {
                    ensure!(ieee::q_of_f64(f as f64) == Some(x.clone()), "lossy_success", "f32::try_from(Relaxed) = {:e} is not the rational", f);
                }
                // rational -> integers
                match IBig::try_from(q.clone()) {
                    Ok(v) => ensure!(BigRational::from_integer(int_of(&v)) == x, "lossy_success", "IBig::try_from(RBig) = {}", v),
                    Err(e) => ensure!(!x.is_integer() && e == ConversionError::LossOfPrecision, "refused_representable", "IBig::try_from(RBig {}) = Err({:?})", q, e),
                }
                match UBig::try_from(q.clone()) {
                    Ok(v) => ensure!(BigRational::from_integer(BigInt::from(nat_of(&v))) == x, "lossy_success", "UBig::try_from(RBig) = {}", v),
                    Err(_) => ensure!(!x.is_integer() || x.is_negative(), "refused_representable", "UBig::try_from(RBig {}) refused", q),
                }
                // a Relaxed value may be refused when it is not reduced, but a success must be exact
                if let Ok(v) = UBig::try_from(rx.clone()) {
                    ensure!(BigRational::from_integer(BigInt::from(nat_of(&v))) == x, "lossy_success", "UBig::try_from(Relaxed) = {}", v);
                }
                Ok(())
            });
        }
        10 | 11 | 12 => {
            // rational -> FBig with a precision (contract), FBig -> rational (exact)
            let (nl, dl) = (gen::small_mag(r), { let mut d = gen::small_mag(r); if gen::nlimbs(&d) == 0 { d = vec![3]; } d });
            let neg = r.bool();
            let p = 1 + r.usize(40);
            let x = BigRational::new(int(neg, &nl), BigInt::from(nat(&dl)));
            let mi = r.below(6);
            let base10 = r.bool();
            let d = || format!("ratio_to_fbig x={}{}/{} p={} mode#{} base={}", if neg { "-" } else { "" }, gen::hex(&nl), gen::hex(&dl), p, mi, if base10 { 10 } else { 2 });
            let h = gen::hash_limbs(gen::hash_limbs(neg as u64 ^ (p as u64) << 8 ^ mi << 20, &nl), &dl);
            fn go<Rm: ModeTag, const B: Word>(x: &BigRational, q: &RBig, p: usize) -> R {
                let res = catch(|| q.to_float::<Rm, B>(p)).or_else(|e| fail("unexpected_panic", e))?;
                let flag = Flag::of(&res);
                let v = res.value();
                check_contract(x, &q_of_repr(v.repr()), flag, digits(&int_of(v.repr().significand()), B as u32), B as u32, p, Rm::M)
                    .or_else(|(k, dd)| fail(k, format!("RBig::to_float::<{}, {}>({}): {} (result {}*{}^{}, flag {:?})", Rm::M.name(), B, p, dd, v.repr().significand(), B, v.repr().exponent(), flag)))?;
                // back to a rational: exact
                let back = RBig::try_from(v.clone()).or_else(|e| fail("refused_representable", format!("RBig::try_from(FBig) = Err({:?})", e)))?;
                ensure!(q_of_rbig(&back) == q_of_repr(v.repr()), "lossy_success", "RBig::try_from(FBig {}) = {}", v, back);
                let back = Relaxed::try_from(v.repr().clone()).or_else(|e| fail("refused_representable", format!("Relaxed::try_from(Repr) = Err({:?})", e)))?;
                ensure!(q_of_relaxed(&back) == q_of_repr(v.repr()), "lossy_success", "Relaxed::try_from(Repr)");
                Ok(())
            }
            m.check("ratio_to_fbig", if base10 { "b10" } else { "b2" }, Some(h), &d, || {
                let q = RBig::from_parts(ibig(neg, &nl), ubig(&dl));
                macro_rules! disp {
                    ($B:literal) => {
                        match mi {
                            0 => go::<mode::Zero, $B>(&x, &q, p),
                            1 => go::<mode::Away, $B>(&x, &q, p),
                            2 => go::<mode::Up, $B>(&x, &q, p),
                            3 => go::<mode::Down, $B>(&x, &q, p),
                            4 => go::<mode::HalfEven, $B>(&x, &q, p),
                            _ => go::<mode::HalfAway, $B>(&x, &q, p),
                        }
                    };
                }
                if base10 {
                    disp!(10)?;
                } else {
                    disp!(2)?;
                }
                // the infallible From<RBig> for FBig must be exact as well
                let fb = catch(|| FBig::<mode::HalfAway, 10>::from(q.clone()));
                match fb {
                    Ok(v) => {
                        if q_of_repr(v.repr()) != x {
                            return fail_kf("lossy_from", format!("FBig::from(RBig {}) = {} silently lost precision through an infallible From", q, v), "KF-C06-from-rbig-lossy");
                        }
                    }
                    Err(e) => {
                        // a panic (unlimited precision division) is a refusal, not a wrong number
                        let _ = e;
                    }
                }
                Ok(())
            });
        }
        13..=18 => {
            // floats of any base -> f32 / f64
            let base_sel = r.below(4);
            let sl = match r.below(4) {
                0 => vec![r.u64() >> r.below(60)],
                1 => gen::small_mag(r),
                _ => vec![r.u64(), r.u64() >> r.below(64)],
            };
            let neg = r.bool();
            let mi = r.below(6);
            let d_e = |r: &mut Rng, base: u32| -> i64 {
                let lb = (base as f64).log2();
                match r.below(8) {
                    0 => r.range(-5, 5),
                    1 => r.range(-40, 40),
                    2 => (1024.0 / lb) as i64 + r.range(-45, 3),
                    3 => (-1074.0 / lb) as i64 + r.range(-25, 25),
                    4 => (128.0 / lb) as i64 + r.range(-12, 3),
                    5 => (-149.0 / lb) as i64 + r.range(-12, 12),
                    _ => r.range(-(400.0 / lb * 3.3) as i64, (400.0 / lb * 3.3) as i64),
                }
            };
            fn go<Rm: ModeTag, const B: Word>(s: &BigInt, e: i64) -> R {
                let base = B as u32;
                let x = q_of_parts(s, e, base);
                let f = FBig::<Rm, B>::from_parts(ibig_of_int(s), e as isize);
                let failx = |kind: &str, detail: String| -> R { fail(kind, detail) };
                // FBig::to_f64 and Repr::to_f32/to_f64 round to nearest even; FBig::to_f32 uses the type's mode
                let (w64, o64) = round_to(&x, F64, Mode::HalfEven);
                let (w32, o32) = round_to(&x, F32, Mode::HalfEven);
                let (w32m, o32m) = round_to(&x, F32, Rm::M);
                let chk = |got: Result<(f64, Flag), String>, want: &IeeeVal, ord: Ordering, what: &str, is32: bool| -> R {
                    let (v, flag) = match got {
                        Ok(v) => v,
                        Err(p) => return failx("unexpected_panic", format!("{}: {}", what, p)),
                    };
                    let ok = if is32 { same32(v as f32, want, &x) } else { same64(v, want, &x) };
                    // overflow under a directed mode: IEEE gives the largest finite value when rounding
                    // toward zero; an infinity with a truthful error sign is accepted as well
                    let (hv, _) = round_to(&x, if is32 { F32 } else { F64 }, Mode::HalfEven);
                    let overflow_inf = matches!(hv, IeeeVal::Inf { .. }) && v.is_infinite() && (v < 0.0) == x.is_negative();
                    if overflow_inf && !ok {
                        return match flag {
                            Flag::Exact => failx("exact_flag", format!("{}: overflow flagged Exact", what)),
                            Flag::AddOne if v < 0.0 => failx("error_sign", format!("{}: -inf flagged AddOne", what)),
                            Flag::SubOne if v > 0.0 => failx("error_sign", format!("{}: +inf flagged SubOne", what)),
                            _ => Ok(()),
                        };
                    }
                    if !ok {
                        let w = if is32 { want.to_f32() as f64 } else { want.to_f64() };
                        let ulps = if is32 { ((v as f32).to_bits() as i64 - (w as f32).to_bits() as i64).abs() } else { (v.to_bits() as i128 - w.to_bits() as i128).abs() as i64 };
                        // the narrow known finding only covers results one ulp away
                        if ulps <= 1 {
                            return failx("misrounded_1ulp", format!("{}: got {:e} want {:e}", what, v, w));
                        }
                        return fail("misrounded", format!("{}: got {:e} want {:e} ({} ulps)", what, v, w, ulps));
                    }
                    if (flag == Flag::Exact) != (ord == Ordering::Equal) {
                        return failx("exact_flag", format!("{}: flag {:?} but the conversion is {}", what, flag, if ord == Ordering::Equal { "exact" } else { "inexact" }));
                    }
                    match flag {
                        Flag::AddOne if ord != Ordering::Greater => failx("error_sign", format!("{}: flagged AddOne but result {:?} value", what, ord)),
                        Flag::SubOne if ord != Ordering::Less => failx("error_sign", format!("{}: flagged SubOne but result {:?} value", what, ord)),
                        _ => Ok(()),
                    }
                };
                chk(catch(|| f.to_f64()).map(|a| (a.clone().value(), Flag::of(&a))), &w64, o64, "FBig::to_f64", false)?;
                chk(catch(|| f.repr().to_f64()).map(|a| (a.clone().value(), Flag::of(&a))), &w64, o64, "Repr::to_f64", false)?;
                chk(catch(|| f.repr().to_f32()).map(|a| (a.clone().value() as f64, Flag::of(&a))), &w32, o32, "Repr::to_f32", true)?;
                chk(catch(|| f.to_f32()).map(|a| (a.clone().value() as f64, Flag::of(&a))), &w32m, o32m, &format!("FBig::<{}>::to_f32", Rm::M.name()), true)
            }
            let base = [2u32, 10, 16, 3][base_sel as usize];
            let e = d_e(r, base);
            let s = int(neg, &sl);
            let d = || format!("fbig_to_float base={} mode#{} x={}*{}^{}", base, mi, s, base, e);
            let h = gen::hash_limbs((e as u64) << 16 ^ mi ^ (base as u64) << 8 ^ (neg as u64) << 63, &sl);
            m.check("fbig_to_float", &format!("b{}", base), if s.is_zero() { None } else { Some(h) }, &d, || {
                macro_rules! disp {
                    ($B:literal) => {
                        match mi {
                            0 => go::<mode::Zero, $B>(&s, e),
                            1 => go::<mode::Away, $B>(&s, e),
                            2 => go::<mode::Up, $B>(&s, e),
                            3 => go::<mode::Down, $B>(&s, e),
                            4 => go::<mode::HalfEven, $B>(&s, e),
                            _ => go::<mode::HalfAway, $B>(&s, e),
                        }
                    };
                }
                match base {
                    2 => disp!(2),
                    10 => disp!(10),
                    16 => disp!(16),
                    _ => disp!(3),
                }
            });
        }
        19 if r.bool() => {
            // FBig::to_int / Repr::to_int: correctly rounded under the mode of the type (Repr: truncation), truthful flag.
            // Values: k + tiny and k - tiny (digit-count estimates cannot tell them from k), fractions on / next to one
            // half incl. the closest value below one half in odd bases, plain random digits
            fn go<Rm: ModeTag, const B: Word>(s: &BigInt, e: i64) -> R {
                let base = B as u32;
                let x = q_of_parts(s, e, base);
                let f = FBig::<Rm, B>::from_parts(ibig_of_int(s), e as isize);
                let res = catch(|| f.to_int()).or_else(|p| fail("unexpected_panic", format!("FBig::to_int: {}", p)))?;
                let flag = Flag::of(&res);
                let got = int_of(match &res {
                    Approximation::Exact(v) => v,
                    Approximation::Inexact(v, _) => v,
                });
                let want = qref::round_units(&x, Rm::M);
                ensure!(got == want, "misrounded", "FBig<{},{}>::to_int({}*{}^{}) = {} want {}", Rm::M.name(), base, s, base, e, got, want);
                ensure!((flag == Flag::Exact) == x.is_integer(), "flag", "to_int flag {:?} but the value {} an integer", flag, if x.is_integer() { "is" } else { "is not" });
                if flag != Flag::Exact {
                    let up = BigRational::from_integer(got.clone()) > x;
                    ensure!((flag == Flag::AddOne) == up || flag == Flag::NoOp, "flag_sign", "to_int flag {:?} but result {} the value", flag, if up { "above" } else { "below" });
                }
                let rt = catch(|| f.repr().to_int()).or_else(|p| fail("unexpected_panic", format!("Repr::to_int: {}", p)))?;
                let tv = int_of(match &rt {
                    Approximation::Exact(v) => v,
                    Approximation::Inexact(v, _) => v,
                });
                ensure!(tv == qref::round_units(&x, Mode::Zero), "misrounded", "Repr::to_int({}*{}^{}) = {} want the truncation", s, base, e, tv);
                Ok(())
            }
            let (bi, mi) = (r.below(4), r.below(6));
            let base: u32 = [2, 10, 3, 16][bi as usize];
            let bb = BigInt::from(base);
            let kmax = if r.bool() { 12 } else { 40 };
            let k = 1 + r.usize(kmax);
            let bk: BigInt = Pow::pow(&bb, k);
            let ipmax = if r.bool() { 4 } else { 1000 };
            let ip = BigInt::from(r.below(ipmax));
            let tail: BigInt = match r.below(8) {
                0 => BigInt::from(1 + r.below(3)),
                1 => &bk - BigInt::from(1 + r.below(3)),
                2 => &bk / 2i32,
                3 => &bk / 2i32 + 1i32,
                4 => (&bk / 2i32 - 1i32).max(BigInt::zero()),
                _ => int(false, &[r.u64(), r.u64()]) % &bk,
            };
            let s: BigInt = (&ip * &bk + tail) * if r.bool() { -1i32 } else { 1i32 };
            let e = -(k as i64);
            let d = || format!("fbig_to_int base={} mode#{} x={}*{}^{}", base, mi, s, base, e);
            let h = gen::hash_limbs((e as u64) << 8 ^ (base as u64) << 40 ^ mi << 50, &limbs_of_nat(s.magnitude())) ^ s.is_negative() as u64;
            m.check("fbig_to_int", &format!("b{}", base), Some(h), &d, || {
                macro_rules! disp {
                    ($B:literal) => {
                        match mi {
                            0 => go::<mode::Zero, $B>(&s, e),
                            1 => go::<mode::Away, $B>(&s, e),
                            2 => go::<mode::Up, $B>(&s, e),
                            3 => go::<mode::Down, $B>(&s, e),
                            4 => go::<mode::HalfEven, $B>(&s, e),
                            _ => go::<mode::HalfAway, $B>(&s, e),
                        }
                    };
                }
                match base {
                    2 => disp!(2),
                    10 => disp!(10),
                    16 => disp!(16),
                    _ => disp!(3),
                }
            });
        }
        19 | 20 => {
            // floats <-> integers
            let sl = gen::small_mag(r);
            let neg = r.bool();
            let e = if r.bool() { r.range(-6, 12) } else { r.range(-40, 40) };
            let bsel = r.below(10);
            let bases = [2u32, 10, 2, 10, 16, 4, 8, 32, 3, 36];
            let s = int(neg, &sl);
            let d = || format!("fbig_int x={}*{}^{}", s, bases[bsel as usize], e);
            m.check("fbig_int", &format!("b{}", bases[bsel as usize]), Some(gen::hash_limbs((e as u64) << 8 ^ bsel << 40, &sl)), &d, || {
                macro_rules! go {
                    ($B:literal) => {{
                        let x = q_of_parts(&s, e, $B);
                        let f = FBig::<mode::HalfEven, $B>::from_parts(ibig_of_int(&s), e as isize);
                        match IBig::try_from(f.clone()) {
                            Ok(v) => ensure!(BigRational::from_integer(int_of(&v)) == x, "lossy_success", "IBig::try_from(FBig) = {}", v),
                            Err(err) => ensure!(!x.is_integer() && err == ConversionError::LossOfPrecision, "refused_representable", "IBig::try_from(FBig {}) = Err({:?})", f, err),
                        }
                        match UBig::try_from(f.clone()) {
                            Ok(v) => ensure!(BigRational::from_integer(BigInt::from(nat_of(&v))) == x, "lossy_success", "UBig::try_from(FBig) = {}", v),
                            Err(_) => ensure!(!x.is_integer() || x.is_negative(), "refused_representable", "UBig::try_from(FBig {}) refused", f),
                        }
                        macro_rules! prim {
                            ($t:ty) => {{
                                let fits = x.is_integer() && x >= BigRational::from_integer(BigInt::from(<$t>::MIN)) && x <= BigRational::from_integer(BigInt::from(<$t>::MAX));
                                match <$t>::try_from(f.clone()) {
                                    Ok(p) => ensure!(fits && BigRational::from_integer(BigInt::from(p)) == x, "lossy_success", "{}::try_from(FBig {}) = {}", stringify!($t), f, p),
                                    Err(err) => ensure!(!fits, "refused_representable", "{}::try_from(FBig {}) = Err({:?})", stringify!($t), f, err),
                                }
                            }};
                        }
                        prim!(u8);
                        prim!(u64);
                        prim!(u128);
                        prim!(i8);
                        prim!(i32);
                        prim!(i64);
                        prim!(i128);
                        // floats into rationals: always exact, RBig in lowest terms; through FBig and through Repr
                        let (rq, rx) = (RBig::try_from(f.clone()), Relaxed::try_from(f.clone()));
                        let (rq2, rx2) = (RBig::try_from(f.repr().clone()), Relaxed::try_from(f.repr().clone()));
                        match (rq, rx, rq2, rx2) {
                            (Ok(a), Ok(b), Ok(a2), Ok(b2)) => {
                                ensure!(q_of_rbig(&a) == x && q_of_relaxed(&b) == x && q_of_rbig(&a2) == x && q_of_relaxed(&b2) == x, "lossy_success", "RBig/Relaxed::try_from(FBig/Repr {}*{}^{}) = {} / {} / {} / {}", s, $B, e, a, b, a2, b2);
                                let g = num_integer::Integer::gcd(&int_of(a.numerator()), &BigInt::from(nat_of(a.denominator())));
                                ensure!(g.is_one() || x.is_zero(), "canonical", "RBig::try_from(FBig {}*{}^{}) = {} is not reduced", s, $B, e, a);
                            }
                            (a, b, _, _) => return fail("refused_representable", format!("RBig/Relaxed::try_from(finite FBig {}*{}^{}) refused: {:?} / {:?}", s, $B, e, a.map(|v| v.to_string()), b.map(|v| v.to_string()))),
                        }
                        // integers into floats are exact
                        let fi = FBig::<mode::HalfEven, $B>::from(ibig_of_int(&s));
                        ensure!(q_of_repr(fi.repr()) == BigRational::from_integer(s.clone()), "lossy_success", "FBig::from(IBig {}) = {}", s, fi);
                        let fu = FBig::<mode::Zero, $B>::from(ubig(&sl));
                        ensure!(q_of_repr(fu.repr()) == BigRational::from_integer(BigInt::from(nat(&sl))), "lossy_success", "FBig::from(UBig)");
                        let fp = FBig::<mode::Zero, $B>::from(sl.first().copied().unwrap_or(0));
                        ensure!(q_of_repr(fp.repr()) == BigRational::from_integer(BigInt::from(sl.first().copied().unwrap_or(0))), "lossy_success", "FBig::from(u64)");
                        Ok(())
                    }};
                }
                match bases[bsel as usize] {
                    2 => go!(2),
                    10 => go!(10),
                    16 => go!(16),
                    4 => go!(4),
                    8 => go!(8),
                    32 => go!(32),
                    3 => go!(3),
                    _ => go!(36),
                }
            });
        }
        _ => {
            // encode/decode of random f32/f64 patterns and (mantissa, exponent) pairs
            let b32 = r.u32();
            let b64 = match r.below(4) {
                0 => r.u64() & 0x800f_ffff_ffff_ffff,
                1 => r.u64() | 0x7fe0_0000_0000_0000,
                _ => r.u64(),
            };
            let (man, exp) = (r.u64() as i64 >> r.below(64), r.range(-1200, 1100) as i16);
            let d = || format!("codec f32 bits {:#x} f64 bits {:#x} encode({}, {})", b32, b64, man, exp);
            m.check("codec", "", Some(b64 ^ b32 as u64 ^ (man as u64).rotate_left(7)), &d, || {
                f32_codec(b32)?;
                let f = f64::from_bits(b64);
                match f.decode() {
                    Ok((mn, ex)) => {
                        ensure!(f.is_finite(), "codec", "decode of a non-finite f64 succeeded");
                        let x = BigRational::from_integer(BigInt::from(mn)) * pow_q(2, ex as i64);
                        ensure!(Some(x) == ieee::q_of_f64(f), "codec", "f64 decode({:e}) = ({}, {})", f, mn, ex);
                        let back = f64::encode(mn, ex);
                        ensure!(matches!(back, Approximation::Exact(v) if v.to_bits() == f.to_bits() || (v == 0.0 && f == 0.0)), "codec", "f64 encode(decode({:e})) = {:?}", f, back);
                    }
                    Err(c) => ensure!((c == FpCategory::Nan && f.is_nan()) || (c == FpCategory::Infinite && f.is_infinite()), "codec", "f64 decode({:e}) = Err({:?})", f, c),
                }
                // arbitrary (mantissa, exponent): correctly rounded with the error sign
                let x = BigRational::from_integer(BigInt::from(man)) * pow_q(2, exp as i64);
                judge_sign64(&x, &f64::encode(man, exp), &format!("f64::encode({}, {})", man, exp))?;
                let m32 = (man >> 32) as i32;
                let e32 = (exp / 6) as i16;
                let x = BigRational::from_integer(BigInt::from(m32)) * pow_q(2, e32 as i64);
                judge_sign32(&x, &f32::encode(m32, e32), &format!("f32::encode({}, {})", m32, e32))
            });
        }
    }
    let _ = (Pow::pow(&BigUint::one(), 1u32), qref::Mode::Zero);
}

fn f32_codec(b: u32) -> R {
    let f = f32::from_bits(b);
    match f.decode() {
        Ok((mn, ex)) => {
            ensure!(f.is_finite(), "codec", "decode of a non-finite f32 succeeded");
            // value check through f64 arithmetic (exact: |mn| < 2^24, ex in [-149, 104])
            let v = (mn as f64) * 2f64.powi(ex as i32);
            ensure!(v == f as f64, "codec", "f32 decode({:e}) = ({}, {})", f, mn, ex);
            let back = f32::encode(mn, ex);
            ensure!(matches!(back, Approximation::Exact(v) if v.to_bits() == b || (v == 0.0 && f == 0.0)), "codec", "f32 encode(decode(bits {:#x})) = {:?}", b, back);
        }
        Err(c) => ensure!((c == FpCategory::Nan && f.is_nan()) || (c == FpCategory::Infinite && f.is_infinite()), "codec", "f32 decode(bits {:#x}) = Err({:?})", b, c),
    }
    Ok(())
}

fn selftest() -> Result<(), String> {
    qref::selftest()?;
    ieee::selftest()
}

fn main() {
    mon::main(Spec {
        prop: "C06",
        quick_cases: 300_000,
        thorough_cases: 6_000_000,
        rule: "Every primitive width/sign at MIN/MAX/+-1 around them and random; integers 2^k + delta for k around 24/53/64/128/1024 and delta in {0, +-1, +-half-ulp, +-half-ulp+-1}; rationals whose quotient needs 24/25/53/54 bits incl. exact ties and one-off ties with 300-word operands, sub-subnormal and overflowing ratios, hardware-checkable n/d < 2^53; f32/f64 inputs incl. NaN, +-inf, -0.0, subnormals; floats of base 2/10/16/3 with exponents around the overflow/underflow thresholds under all six modes; thorough additionally decodes and re-encodes all 2^32 binary32 patterns (first 4096 cases). Lossy conversions are compared bit-for-bit with an independent IEEE reference (self-tested against hardware casts/division each run) incl. Exact/Inexact and error sign; TryFrom/From successes must carry exactly the source value.",
        assumptions: &["a TryFrom that refuses a representable value is only an error where the documentation is unambiguous (primitive<->big integer ranges, float->integer/rational); big integer -> f32/f64 TryFrom is only required to be exact when it succeeds (pinned tests refuse values above the mantissa width)", "an Inexact(NoOp) flag carries no sign claim"],
        required: &[("prim_int", false), ("int_to_float", false), ("float_to_big", false), ("ratio_to_float", false), ("ratio_to_fbig", false), ("fbig_to_float/b2", false), ("fbig_to_float/b10", false), ("fbig_int", false), ("fbig_to_int", false), ("codec", false), ("f32_exhaustive", true)],
        case,
        selftest: Some(selftest),
        panic_finding: None,
    });
}
