//! C18 — rational approximation functions return the optimal fraction they promise.
use dashu_base::{Approximation, Sign};
use dashu_float::{round::mode, FBig};
use dashu_int::{UBig, Word};
use dashu_ratio::RBig;
use dvh::conv::*;
use dvh::ensure;
use dvh::gen;
use dvh::ieee::{self, round_to, F32, F64};
use dvh::mon::{self, catch, fail, Mon, Spec, R};
use dvh::qref::{self, Mode, ModeTag};
use dvh::rng::Rng;
use num_bigint::{BigInt, BigUint};
use num_rational::BigRational;
use num_traits::{One, Pow, Signed, Zero};
use std::cmp::Ordering;

type Q = BigRational;

fn qi(n: i64) -> Q {
    Q::from_integer(BigInt::from(n))
}

/// documented order: smaller denominator, then smaller |numerator|, then positive before negative
fn simpler(a: &Q, b: &Q) -> bool {
    match a.denom().cmp(b.denom()) {
        Ordering::Less => true,
        Ordering::Greater => false,
        Ordering::Equal => match a.numer().magnitude().cmp(b.numer().magnitude()) {
            Ordering::Less => true,
            Ordering::Greater => false,
            Ordering::Equal => a.is_positive() && b.is_negative(),
        },
    }
}

/// simplest fraction strictly inside (lo, hi), 0 <= lo < hi  (continued-fraction descent, written independently)
fn simplest_pos(lo: &Q, hi: &Q) -> Q {
    debug_assert!(!lo.is_negative() && lo < hi);
    let fl = lo.floor();
    let next_int = &fl + Q::one();
    if &next_int < hi {
        // an integer lies strictly inside; the smallest one is the simplest (denominator 1, least magnitude)
        return next_int;
    }
    // no integer strictly inside: lo and hi share the integer part fl (hi <= fl + 1)
    if lo == &fl {
        // (fl, hi) with hi <= fl + 1: fl + 1/k with the smallest k such that 1/k < hi - fl
        let w = hi - &fl;
        let k = (Q::one() / &w).floor() + Q::one();
        return &fl + Q::one() / k;
    }
    // x = fl + 1/y with y in (1/(hi - fl), 1/(lo - fl)); minimising the denominator of x minimises that of y
    let (ylo, yhi) = (Q::one() / (hi - &fl), Q::one() / (lo - &fl));
    let y = simplest_pos(&ylo, &yhi);
    &fl + Q::one() / y
}

/// simplest fraction strictly inside (lo, hi) for any lo < hi
fn simplest_open(lo: &Q, hi: &Q) -> Q {
    if lo.is_negative() && hi.is_positive() {
        Q::zero()
    } else if !lo.is_negative() {
        simplest_pos(lo, hi)
    } else {
        -simplest_pos(&-hi, &-lo)
    }
}

fn simplest_interval(lo: &Q, lo_incl: bool, hi: &Q, hi_incl: bool) -> Q {
    if lo == hi {
        return lo.clone();
    }
    let mut best = simplest_open(lo, hi);
    if lo_incl && simpler(lo, &best) {
        best = lo.clone();
    }
    if hi_incl && simpler(hi, &best) {
        best = hi.clone();
    }
    best
}

/// brute force: first denominator with an integer strictly inside, smallest magnitude, positive first
fn simplest_brute(lo: &Q, hi: &Q, max_den: u64) -> Option<Q> {
    for d in 1..=max_den {
        let dq = Q::from_integer(BigInt::from(d));
        let a: BigInt = (lo * &dq).floor().to_integer() + 1i32; // smallest integer > lo*d
        let b: BigInt = (hi * &dq).ceil().to_integer() - 1i32; // largest integer < hi*d
        if a <= b {
            // candidates a..=b, choose smallest magnitude, positive preferred
            let n = if a.is_positive() {
                a
            } else if b.is_negative() {
                b
            } else {
                BigInt::zero()
            };
            return Some(Q::new(n, BigInt::from(d)));
        }
    }
    None
}

fn small_q(r: &mut Rng, m: &Mon) -> Q {
    let big = m.thorough() && r.chance(1, 10);
    let n = if big { gen::mag(r, 20) } else { vec![r.u64() >> r.below(64)] };
    let d = if big { gen::mag(r, 20) } else { vec![r.u64() >> r.below(64)] };
    Q::new(int(r.bool(), &n), BigInt::from(nat(&d)) + 1)
}

fn rb(q: &Q) -> RBig {
    RBig::from_parts(ibig_of_int(q.numer()), ubig_of_nat(q.denom().magnitude()))
}

fn float_case<Rm: ModeTag + dashu_float::round::ErrorBounds, const B: Word>(r: &mut Rng) -> R {
    let base = B as u32;
    let p = 1 + r.usize(30);
    let d = 1 + r.usize(p);
    let bb = BigUint::from(base);
    let smag = match r.below(5) {
        0 => Pow::pow(&bb, d - 1), // power boundary
        1 => Pow::pow(&bb, d) - 1u32,
        _ => {
            let lo = Pow::pow(&bb, d - 1);
            let span = Pow::pow(&bb, d) - &lo;
            lo + nat(&[r.u64(), r.u64(), r.u64()]) % span
        }
    };
    let neg = r.bool();
    let e = r.range(-40, 20);
    let s = BigInt::from(smag) * if neg { -1 } else { 1 };
    let f = FBig::<Rm, B>::from_parts(ibig_of_int(&s), e as isize).with_precision(p).value();
    let fq = q_of_repr(f.repr());
    let got = catch(|| RBig::simplest_from_float(&f)).or_else(|pn| fail("unexpected_panic", format!("simplest_from_float({}*{}^{}, p={}, {}): {}", s, base, e, p, Rm::M.name(), pn)))?;
    let got = match got {
        Some(g) => q_of_rbig(&g),
        None => return fail("none_for_finite", format!("simplest_from_float returned None for the finite {}*{}^{}", s, base, e)),
    };
    // (i) it must convert back to exactly f under the rounding rule of the type
    let (u, ue) = qref::round_ref(&got, base, p, Rm::M);
    let back = q_of_parts(&u, ue, base);
    ensure!(back == fq, "not_in_interval", "simplest_from_float({}*{}^{}, p={}, {}) = {} which rounds to {}*{}^{} instead", s, base, e, p, Rm::M.name(), show_q(&got), u, base, ue);
    // (ii) nothing simpler converts back to f: the rounding interval of f
    let m_exp = {
        // f = mant * B^me with mant having exactly p digits
        let dg = qref::digits(&s, base) as i64;
        e - (p as i64 - dg)
    };
    let ulp = pow_q(base, m_exp);
    let mant_is_power = { let sm = s.magnitude().clone(); sm == Pow::pow(&bb, (qref::digits(&s, base) - 1) as usize) };
    let ulp_below = if mant_is_power { &ulp / Q::from_integer(BigInt::from(base)) } else { ulp.clone() };
    // neighbours in magnitude
    let (mag_down, mag_up) = (fq.abs() - &ulp_below, fq.abs() + &ulp);
    let half = Q::new(BigInt::one(), BigInt::from(2));
    let last_even = {
        let mant = s.magnitude() * Pow::pow(&bb, (p - qref::digits(&s, base)) as usize);
        (&mant % 2u32).is_zero()
    };
    // interval in magnitude space [a, b] with inclusiveness, then mirrored for negatives
    let (a, ai, b, bi) = match Rm::M {
        Mode::Zero => (fq.abs(), true, mag_up.clone(), false),
        Mode::Away => (mag_down.clone(), false, fq.abs(), true),
        Mode::Up => {
            if neg {
                (fq.abs(), true, mag_up.clone(), false)
            } else {
                (mag_down.clone(), false, fq.abs(), true)
            }
        }
        Mode::Down => {
            if neg {
                (mag_down.clone(), false, fq.abs(), true)
            } else {
                (fq.abs(), true, mag_up.clone(), false)
            }
        }
        Mode::HalfEven => (fq.abs() - &ulp_below * &half, last_even, fq.abs() + &ulp * &half, last_even),
        Mode::HalfAway => (fq.abs() - &ulp_below * &half, true, fq.abs() + &ulp * &half, false),
    };
    let want_mag = simplest_interval(&a, ai, &b, bi);
    let want = if neg { -want_mag } else { want_mag };
    if got != want {
        // both convert back; the simpler one decides who is wrong
        let (wu, we) = qref::round_ref(&want, base, p, Rm::M);
        if q_of_parts(&wu, we, base) == fq && simpler(&want, &got) {
            // known finding: in an odd base half an ulp is not representable, ErrorBounds approximates it from below by
            // (B^k - 1) / (2 B^k) ulp with k = 4p + 64. Only a simplest fraction inside the sliver between that
            // approximation and the exact tie point is excused; a coarser approximation is a violation
            let k = 4 * p + 64;
            let two_bk = BigRational::from_integer(BigInt::from(2)) * pow_q(base, k as i64);
            let wm = want.abs();
            let in_sliver = (&wm - &a).abs() <= &ulp_below / &two_bk || (&b - &wm).abs() <= &ulp / &two_bk;
            if base % 2 == 1 && Rm::M.is_half() && in_sliver {
                return mon::fail_kf("not_simplest", format!("simplest_from_float({}*{}^{}, p={}, {}) = {} but {} is simpler and also converts back (odd base: half an ulp is not representable by ErrorBounds)", s, base, e, p, Rm::M.name(), show_q(&got), show_q(&want)), "KF-C18-odd-base-half-ulp");
            }
            return fail("not_simplest", format!("simplest_from_float({}*{}^{}, p={}, {}) = {} but {} is simpler and also converts back", s, base, e, p, Rm::M.name(), show_q(&got), show_q(&want)));
        }
        return fail("oracle_disagrees", format!("monitor oracle {} vs library {} for {}*{}^{} p={} {}", show_q(&want), show_q(&got), s, base, e, p, Rm::M.name()));
    }
    Ok(())
}

fn case(m: &mut Mon, r: &mut Rng, _idx: u64) {
    match r.below(14) {
        0 | 1 => {
            let (a, b) = (small_q(r, m), match r.below(4) {
                0 => {
                    let a2 = small_q(r, m);
                    Q::new(a2.numer().clone(), a2.denom().clone())
                }
                _ => small_q(r, m),
            });
            // same denominators / same magnitudes to reach the later criteria
            let b = match r.below(4) {
                0 => Q::new(b.numer().clone(), a.denom().clone()),
                1 => -a.clone(),
                2 => a.clone(),
                _ => b,
            };
            let d = || format!("is_simpler_than a={} b={}", show_q(&a), show_q(&b));
            let h = gen::hash_limbs(gen::hash_limbs(1, &limbs_of_nat(a.numer().magnitude())), &limbs_of_nat(b.denom().magnitude())) ^ gen::hash_limbs(2, &limbs_of_nat(b.numer().magnitude()));
            m.check("is_simpler_than", "", Some(h), &d, || {
                let (ra, rbq) = (rb(&a), rb(&b));
                let (ca, cb) = (q_of_rbig(&ra), q_of_rbig(&rbq));
                ensure!(ra.is_simpler_than(&rbq) == simpler(&ca, &cb), "order", "is_simpler_than({}, {}) = {} but the documented order says {}", ra, rbq, ra.is_simpler_than(&rbq), simpler(&ca, &cb));
                ensure!(rbq.is_simpler_than(&ra) == simpler(&cb, &ca), "order", "is_simpler_than({}, {}) = {}", rbq, ra, rbq.is_simpler_than(&ra));
                Ok(())
            });
        }
        2 | 3 | 4 => {
            // simplest_in
            let lo = small_q(r, m);
            let hi = match r.below(8) {
                0 => lo.clone(),
                1 => Q::zero(),
                2 => lo.floor(),
                3 => &lo + Q::new(BigInt::one(), BigInt::from(r.u64() >> r.below(60)) + 1),
                4 => -lo.clone(),
                5 => lo.ceil(),
                _ => small_q(r, m),
            };
            let (lo, hi) = if r.bool() { (hi, lo) } else { (lo, hi) };
            let d = || format!("simplest_in l={} u={}", show_q(&lo), show_q(&hi));
            let h = gen::hash_limbs(gen::hash_limbs(3, &limbs_of_nat(lo.numer().magnitude())), &limbs_of_nat(hi.numer().magnitude())) ^ gen::hash_limbs(4, &limbs_of_nat(hi.denom().magnitude()));
            let cell = if lo == hi { "equal" } else if lo.is_zero() || hi.is_zero() { "zero_end" } else if lo.is_negative() != hi.is_negative() { "straddle" } else { "same_sign" };
            m.check("simplest_in", cell, Some(h), &d, || {
                let got = catch(|| RBig::simplest_in(rb(&lo), rb(&hi))).or_else(|p| fail("unexpected_panic", p))?;
                let g = q_of_rbig(&got);
                if lo == hi {
                    ensure!(g == lo, "value", "simplest_in(x, x) = {} (documented: x itself)", got);
                    return Ok(());
                }
                let (a, b) = if lo < hi { (&lo, &hi) } else { (&hi, &lo) };
                ensure!(&g > a && &g < b, "not_inside", "simplest_in = {} is not strictly between the endpoints", got);
                let want = simplest_open(a, b);
                ensure!(g == want, "not_simplest", "simplest_in = {} but {} is strictly inside and simpler", got, show_q(&want));
                Ok(())
            });
        }
        5 | 6 | 7 => {
            // Farey neighbours and nearest, brute force over all denominators <= limit
            let x = match r.below(5) {
                0 => Q::from_integer(BigInt::from(r.range(-5, 5))),
                1 => Q::new(BigInt::from(r.range(-40, 40)), BigInt::from(r.range(1, 12))),
                _ => small_q(r, m),
            };
            let limit = match r.below(5) {
                0 => 1,
                1 => 1 + r.below(5),
                _ => 1 + r.below(if m.thorough() { 1500 } else { 250 }),
            };
            let d = || format!("farey x={} limit={}", show_q(&x), limit);
            let h = gen::hash_limbs(gen::hash_limbs(limit, &limbs_of_nat(x.numer().magnitude())), &limbs_of_nat(x.denom().magnitude()));
            m.check("farey", if x.denom() <= &BigInt::from(limit) { "fits" } else { "exceeds" }, Some(h), &d, || {
                let mut up: Option<Q> = None;
                let mut down: Option<Q> = None;
                for dd in 1..=limit {
                    let dq = Q::from_integer(BigInt::from(dd));
                    let a = Q::new((&x * &dq).floor().to_integer() + 1i32, BigInt::from(dd));
                    let b = Q::new((&x * &dq).ceil().to_integer() - 1i32, BigInt::from(dd));
                    if up.as_ref().map_or(true, |u| &a < u) {
                        up = Some(a);
                    }
                    if down.as_ref().map_or(true, |u| &b > u) {
                        down = Some(b);
                    }
                }
                let (up, down) = (up.unwrap(), down.unwrap());
                let q = rb(&x);
                let lim = UBig::from(limit);
                let gu = catch(|| q.next_up(&lim)).or_else(|p| fail("unexpected_panic", format!("next_up: {}", p)))?;
                ensure!(q_of_rbig(&gu) == up, "farey", "next_up({}) = {} but the next element of the Farey sequence is {}", limit, gu, show_q(&up));
                let gd = catch(|| q.next_down(&lim)).or_else(|p| fail("unexpected_panic", format!("next_down: {}", p)))?;
                ensure!(q_of_rbig(&gd) == down, "farey", "next_down({}) = {} but the previous element is {}", limit, gd, show_q(&down));
                let gn = catch(|| q.nearest(&lim)).or_else(|p| fail("unexpected_panic", format!("nearest: {}", p)))?;
                if x.denom() <= &BigInt::from(limit) {
                    ensure!(matches!(&gn, Approximation::Exact(v) if q_of_rbig(v) == x), "nearest", "nearest({}) = {:?} although the denominator already fits", limit, gn.clone().map(|v| v.to_string()));
                } else {
                    let (du, dd) = (&up - &x, &x - &down);
                    match &gn {
                        Approximation::Exact(v) => return fail("nearest", format!("nearest({}) = Exact({}) but the denominator does not fit", limit, v)),
                        Approximation::Inexact(v, s) => {
                            let v = q_of_rbig(v);
                            let ok = (v == up && du <= dd) || (v == down && dd <= du);
                            ensure!(ok, "nearest", "nearest({}) = {} but the neighbours are {} (distance {}) and {} (distance {})", limit, show_q(&v), show_q(&down), show_q(&dd), show_q(&up), show_q(&du));
                            // sign convention fixed by the doc-test: Positive <=> the result is above self
                            ensure!((*s == Sign::Positive) == (v > x), "nearest_sign", "nearest({}) = {} flagged {:?}", limit, show_q(&v), s);
                        }
                    }
                }
                Ok(())
            });
        }
        8 | 9 | 10 => {
            // simplest_from_f32 / f64
            let is32 = r.bool();
            let bits64 = match r.below(6) {
                0 => (r.u64() & 0xfff0_0000_0000_0000) | 0, // powers of two
                1 => r.u64() & 0x800f_ffff_ffff_ffff,      // subnormals
                2 => ((r.u64() >> 12) as f64 / (1 + (r.u64() >> 50)) as f64).to_bits(),
                3 => (r.range(-50, 50) as f64 / r.range(1, 40) as f64).to_bits(),
                // ulp between 1/8 and 16: the rounding interval's ends are integers or halves, so the simplest
                // member is often an END of the interval (tie rule: end included only for an even mantissa)
                4 => (r.u64() & 0x800f_ffff_ffff_ffff & !(r.below(8))) | ((1023 + 49 + r.below(8)) << 52),
                _ => r.u64(),
            };
            let f64v = f64::from_bits(bits64);
            let f32v = match r.below(3) {
                0 => f64v as f32,
                1 => f32::from_bits((r.u32() & 0x807f_ffff & !(r.below(8) as u32)) | ((127 + 20 + r.below(8) as u32) << 23)),
                _ => f32::from_bits(r.u32()),
            };
            let d = || if is32 { format!("simplest_from_f32 {:e} (bits {:#x})", f32v, f32v.to_bits()) } else { format!("simplest_from_f64 {:e} (bits {:#x})", f64v, bits64) };
            m.check(if is32 { "simplest_from_f32" } else { "simplest_from_f64" }, "", Some(if is32 { f32v.to_bits() as u64 } else { bits64 }), &d, || {
                let (fv, fmt, got) = if is32 {
                    (f32v as f64, F32, catch(|| RBig::simplest_from_f32(f32v)).or_else(|p| fail("unexpected_panic", p))?)
                } else {
                    (f64v, F64, catch(|| RBig::simplest_from_f64(f64v)).or_else(|p| fail("unexpected_panic", p))?)
                };
                if !fv.is_finite() {
                    ensure!(got.is_none(), "value", "NaN/infinity gave {:?}", got.map(|v| v.to_string()));
                    return Ok(());
                }
                let got = q_of_rbig(&got.ok_or(()).or_else(|_| fail("none_for_finite", "None for a finite float".to_string()))?);
                let fq = ieee::q_of_f64(fv).unwrap();
                if fq.is_zero() {
                    ensure!(got.is_zero(), "value", "simplest_from_float(0) = {}", show_q(&got));
                    return Ok(());
                }
                // (i) converts back to exactly the float (round to nearest even)
                let (back, _) = round_to(&got, fmt, Mode::HalfEven);
                let same = if is32 { back.to_f32().to_bits() == (fv as f32).to_bits() } else { back.to_f64().to_bits() == fv.to_bits() };
                ensure!(same, "not_in_interval", "result {} converts back to {:e}, not to {:e}", show_q(&got), back.to_f64(), fv);
                // (ii) simplest among those: interval between the midpoints to the neighbouring floats
                let (prev, next) = if is32 {
                    let b = (fv as f32).abs().to_bits();
                    (f32::from_bits(b - 1) as f64, if b + 1 >= 0x7f80_0000 { f64::INFINITY } else { f32::from_bits(b + 1) as f64 })
                } else {
                    let b = fv.abs().to_bits();
                    (f64::from_bits(b - 1), if b + 1 >= 0x7ff0_0000_0000_0000 { f64::INFINITY } else { f64::from_bits(b + 1) })
                };
                let mag = fq.abs();
                let lo = (ieee::q_of_f64(prev).unwrap() + &mag) / qi(2);
                let hi = if next.is_finite() { (ieee::q_of_f64(next).unwrap() + &mag) / qi(2) } else { &mag + (&mag - ieee::q_of_f64(prev).unwrap()) / qi(2) };
                let even = if is32 { (fv as f32).to_bits() & 1 == 0 } else { fv.to_bits() & 1 == 0 };
                let want_mag = simplest_interval(&lo, even, &hi, even);
                let want = if fq.is_negative() { -want_mag } else { want_mag };
                if got != want {
                    if simpler(&want, &got) {
                        return fail("not_simplest", format!("result {} but {} is simpler and converts back to the same float", show_q(&got), show_q(&want)));
                    }
                    return fail("oracle_disagrees", format!("monitor oracle {} vs library {}", show_q(&want), show_q(&got)));
                }
                Ok(())
            });
        }
        _ => {
            // simplest_from_float for FBig of several bases and all modes
            let mi = r.below(6);
            let bi = r.below(3);
            let d = || format!("simplest_from_float mode#{} base#{}", mi, bi);
            let mut rr = r.clone();
            m.check("simplest_from_fbig", &format!("m{}b{}", mi, bi), Some(r.u64()), &d, || {
                macro_rules! disp {
                    ($B:literal) => {
                        match mi {
                            0 => float_case::<mode::Zero, $B>(&mut rr),
                            1 => float_case::<mode::Away, $B>(&mut rr),
                            2 => float_case::<mode::Up, $B>(&mut rr),
                            3 => float_case::<mode::Down, $B>(&mut rr),
                            4 => float_case::<mode::HalfEven, $B>(&mut rr),
                            _ => float_case::<mode::HalfAway, $B>(&mut rr),
                        }
                    };
                }
                match bi {
                    0 => disp!(2),
                    1 => disp!(10),
                    _ => disp!(3),
                }
            });
        }
    }
}

fn selftest() -> Result<(), String> {
    qref::selftest()?;
    ieee::selftest()?;
    // the continued-fraction oracle must agree with brute force on small instances
    let mut r = Rng::new(77);
    for _ in 0..3000 {
        let a = Q::new(BigInt::from(r.range(-60, 60)), BigInt::from(r.range(1, 25)));
        let b = Q::new(BigInt::from(r.range(-60, 60)), BigInt::from(r.range(1, 25)));
        if a == b {
            continue;
        }
        let (lo, hi) = if a < b { (a, b) } else { (b, a) };
        let want = simplest_brute(&lo, &hi, 5000).ok_or("brute force found nothing")?;
        let got = simplest_open(&lo, &hi);
        if want != got {
            return Err(format!("simplest_open({}, {}) = {} but brute force gives {}", lo, hi, got, want));
        }
    }
    Ok(())
}

fn main() {
    mon::main(Spec {
        prop: "C18",
        quick_cases: 120_000,
        thorough_cases: 4_000_000,
        rule: "is_simpler_than against the documented lexicographic order (pairs with equal denominators / equal magnitudes included); simplest_in with equal, swapped, negative, sign-straddling, zero and integer endpoints and very narrow intervals, judged by an independent continued-fraction oracle (self-tested against brute force over denominators on 3000 small intervals every run); next_up/next_down/nearest against brute force over all denominators <= limit (limit 1..250, thorough 1500) incl. integers and fitting denominators; simplest_from_f32/f64 (powers of two, subnormals, ratios, ulp 1/8..16 where interval ends are integers or halves, random patterns) and simplest_from_float (3 bases x 6 modes, power-of-base boundaries) must convert back to the same float (own IEEE / round_ref reference) and equal the simplest fraction of the exact rounding interval.",
        assumptions: &["nearest()'s sign follows its doc-test (Positive = result above self)", "a tie in nearest() may resolve to either neighbour", "simplest_in(x, x) = x as documented"],
        required: &[("is_simpler_than", false), ("simplest_in/", false), ("farey/", false), ("simplest_from_f32", false), ("simplest_from_f64", false), ("simplest_from_fbig", false)],
        case,
        selftest: Some(selftest),
        panic_finding: None,
    });
}
