use dashu_float::{round::mode, FBig};
use dashu_int::IBig;
use dashu_base::SquareRoot;
type F2 = FBig<mode::Zero, 2>;
fn main() {
    let x = F2::from_parts(IBig::from(0), 3).with_precision(5).value();
    println!("x prec {}", x.precision());
    let y = F2::from_parts(IBig::from(5), 3).with_precision(5).value();
    println!("add {}", (&x + &y));
    println!("mul {}", (&x * &y));
    println!("div {}", (&x / &y));
    println!("sqrt {}", x.sqrt());
    println!("dec {:?}", x.to_decimal());
}
