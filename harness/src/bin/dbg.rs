fn main() { println!("{:?}", dvh::ieee::selftest()); }
