use dashu_float::{round::mode, Context, FBig, Repr};
use dashu_int::IBig;
fn show<R: dashu_float::round::Round>(name: &str) {
    for (s, e) in [(-5i64, -20isize), (5, -20), (-5, -3), (5, -3)] {
        let ctx = Context::<R>::new(6);
        let x = Repr::<10>::new(IBig::from(s), e);
        let r = ctx.exp(&x);
        let r2 = ctx.exp_m1(&x);
        println!("{:9} exp({}e{}) = {:?}   exp_m1 = {:?}", name, s, e, r.map(|v: FBig<R, 10>| v.to_string()), r2.map(|v| v.to_string()));
    }
}
fn main() {
    show::<mode::Zero>("Zero");
    show::<mode::Away>("Away");
    show::<mode::Up>("Up");
    show::<mode::Down>("Down");
    show::<mode::HalfEven>("HalfEven");
    show::<mode::HalfAway>("HalfAway");
}
