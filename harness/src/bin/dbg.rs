use dashu_float::{round::mode, Context, Repr};
use dashu_int::IBig;
fn main() {
    let c = Context::<mode::HalfAway>::new(3);
    let x = Repr::<3>::new(IBig::from(10460353202u64), -18);
    println!("powi = {:?}", c.powi(&x, 12.into()));
    let w = Context::<mode::HalfAway>::new(9);
    println!("sqr = {:?}", w.sqr(&x));
    println!("mul = {:?}", w.mul(&x, &x));
}
