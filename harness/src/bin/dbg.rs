use dashu_int::{IBig, UBig};
use dashu_ratio::{RBig, Relaxed};
use num_order::NumHash;
use std::collections::hash_map::DefaultHasher;
use std::hash::Hasher;
fn h<T: NumHash>(t: &T) -> u64 { let mut s = DefaultHasher::new(); t.num_hash(&mut s); s.finish() }
fn main() {
    let m = IBig::from(i128::MAX);
    let r = Relaxed::from_parts(IBig::from(3) * &m, UBig::from(5u8) * UBig::try_from(m.clone()).unwrap());
    let q = RBig::from_parts(IBig::from(3), UBig::from(5u8));
    println!("relaxed {} rbig {} equal {}", h(&r), h(&q), h(&r) == h(&q));
    let r2 = Relaxed::from_parts(IBig::from(-3) * &m * &m, UBig::from(5u8) * UBig::try_from(m.clone()).unwrap());
    let q2 = RBig::from_parts(IBig::from(-3) * &m, UBig::from(5u8));
    println!("relaxed {} rbig {} equal {}", h(&r2), h(&q2), h(&r2) == h(&q2));
}
