use dashu_int::{fast_div::ConstDivisor, UBig};
use dvh::rng::Rng;
fn main() {
    let mut r = Rng::for_case(1, "dbg", 0);
    let mut fails = std::collections::BTreeMap::new();
    for n in [25usize, 47, 49, 51, 53, 55, 97, 99] {
        for el in [1usize, 2, 3, 5, 10, 24, 25, 26, 40, 48] {
            let mut cnt = 0;
            for _ in 0..40 {
                let m: Vec<u64> = (0..n).map(|_| r.u64() | 1).collect();
                let a: Vec<u64> = (0..el.min(n)).map(|_| r.u64() | 1).collect();
                let ring = ConstDivisor::new(UBig::from_words(&m));
                let x = ring.reduce(UBig::from_words(&a));
                let res = std::panic::catch_unwind(std::panic::AssertUnwindSafe(|| x.inv()));
                if res.is_err() { cnt += 1; }
            }
            if cnt > 0 { fails.insert((n, el), cnt); }
        }
    }
    println!("{:?}", fails);
}
