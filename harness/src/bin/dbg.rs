use dashu_float::{round::mode, FBig};
use dashu_int::IBig;
type F = FBig<mode::Down, 3>;
fn main() {
    let p: usize = std::env::args().nth(1).unwrap().parse().unwrap();
    let x = F::from_parts(IBig::from(4396), -8).with_precision(p).value();
    let y = x.exp();
    println!("{} {}", y.repr().significand(), y.repr().exponent());
}
