use dashu_base::ExtendedGcd;
use dashu_int::{IBig, UBig};
use dvh::conv::*;
fn main() {
    // case 1: a = 2^263 (5 limbs, low zero), b = multiple?
    let args: Vec<String> = std::env::args().collect();
    let a = UBig::from_str_radix(&args[1], 16).unwrap();
    let b = UBig::from_str_radix(&args[2], 16).unwrap();
    let r = dvh::mon::catch(|| (&a).gcd_ext(&b));
    match r {
        Ok((g, s, t)) => {
            let lhs = IBig::from(a.clone()) * &s + IBig::from(b.clone()) * &t;
            println!("g={} ok={}", show_u(&g), lhs == IBig::from(g.clone()));
        }
        Err(e) => println!("panic {}", e),
    }
}
