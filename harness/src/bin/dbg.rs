use dashu_base::BitTest;
use dashu_float::DBig;
fn main() {
    println!("(-1i8).bit(7) = {}  (-1i64).bit(63) = {}  (-128i8).bit(7) = {} (5i8).bit(7) = {} (-1i8).bit(3) = {} (-1i8).bit(100) = {}", (-1i8).bit(7), (-1i64).bit(63), (-128i8).bit(7), 5i8.bit(7), (-1i8).bit(3), (-1i8).bit(100));
    let ni = -DBig::INFINITY;
    println!("-INF == NEG_INF: {}   -INF == INF: {}   -(NEG_INF) == INF: {}", ni == DBig::NEG_INFINITY, ni == DBig::INFINITY, -DBig::NEG_INFINITY == DBig::INFINITY);
}
