use dashu_ratio::RBig;
use dashu_int::{IBig, UBig};
fn main() {
    let a = RBig::from(IBig::from(10));
    let b = RBig::from(IBig::from(20));
    println!("simplest_in(10,20) = {}", RBig::simplest_in(a, b));
    let a = RBig::from(IBig::from(1000000));
    let b = RBig::from(IBig::from(1000002));
    println!("simplest_in(1000000,1000002) = {}", RBig::simplest_in(a, b));
    let a = RBig::from_parts(IBig::from(21), UBig::from(2u8));
    let b = RBig::from_parts(IBig::from(23), UBig::from(2u8));
    println!("simplest_in(21/2,23/2) = {}", RBig::simplest_in(a, b));
    println!("simplest_from_f32(-8.0716796e29) = {:?}", RBig::simplest_from_f32(f32::from_bits(0xf123019b)));
    println!("simplest_from_f32(3e10) = {:?}", RBig::simplest_from_f32(3e10));
    println!("simplest_from_f32(16777218) = {:?}", RBig::simplest_from_f32(16777218.0));
    println!("simplest_from_f32(33554436) = {:?}", RBig::simplest_from_f32(33554436.0));
}
