//! C03 — float add/sub/mul/div/sqrt/sqr/cubic/inv honour the rounding contract of their mode.
use dashu_float::{round::mode, Context, FBig, Repr};
use dashu_int::{IBig, Word};
use dvh::conv::*;
use dvh::ival::floor_log;
use dvh::mon::{self, catch, fail, Mon, Spec, R};
use dvh::qref::{self, check_contract, check_contract_gen, digits, Flag, ModeTag};
use dvh::rng::Rng;
use num_bigint::{BigInt, BigUint};
use num_rational::BigRational;
use num_traits::{One, Pow, Signed, Zero};
use std::cmp::Ordering;

/// a significand with exactly `d` base-B digits (d >= 1)
fn sig(r: &mut Rng, base: u32, d: usize) -> BigUint {
    let b = BigUint::from(base);
    let lo = Pow::pow(&b, d - 1);
    let hi = Pow::pow(&b, d);
    match r.below(8) {
        0 => &hi - 1u32,
        1 => lo,
        2 => &lo + 1u32,
        3 => (&hi - 1u32 - BigUint::from(r.below(base as u64))).max(Pow::pow(&b, d - 1)),
        4 => {
            // half-way patterns: digits then B/2 then zeros
            let v = &lo + (&hi - &lo) / 2u32;
            v
        }
        _ => {
            let span = &hi - &lo;
            let rnd = nat(&(0..(span.bits() / 64 + 2)).map(|_| r.u64()).collect::<Vec<_>>());
            &lo + rnd % span
        }
    }
}

fn precision(m: &Mon, r: &mut Rng) -> usize {
    match r.below(20) {
        0..=9 => 1 + r.usize(20),
        10..=12 => *r.pick(&[24usize, 53, 64, 100]),
        // digit counts next to machine-word boundaries of the significand (19 / 38 decimal digits, 64 / 128 / 256 bits ...):
        // word-sized fast paths and multi-word helpers switch there
        13 => *r.pick(&[19usize, 20, 27, 28, 29, 38, 39, 40, 63, 65, 77, 78, 116, 127, 128, 129, 154, 192, 255, 256, 257, 384, 512]),
        14..=16 => 1 + r.usize(3),
        17 | 18 => 21 + r.usize(80),
        _ => {
            if m.thorough() {
                *r.pick(&[333usize, 1000])
            } else {
                *r.pick(&[100usize, 333])
            }
        }
    }
}

/// A short history over a pool of live floats of different precisions: every step applies one operator form (by value,
/// by reference, in place, with an integer operand, shifts, precision changes, clone_from) to values that earlier steps
/// left behind, and the result is judged against the exact rational of the *stored* operands by the same contract, at
/// the precision the operator is documented to use (the larger of the two). Operands that carry more digits than that
/// precision are outside the property and are only required not to panic.
fn history<Rm: ModeTag, const B: Word>(m: &mut Mon, r: &mut Rng) {
    let base = B as u32;
    let npool = 5;
    let fresh = |r: &mut Rng| -> FBig<Rm, B> {
        let p = match r.below(6) {
            0 => 1,
            1 => 2 + r.usize(3),
            _ => 1 + r.usize(45),
        };
        let d = 1 + r.usize(p);
        let s = BigInt::from(sig(r, base, d)) * if r.bool() { -1 } else { 1 };
        let s = if r.chance(1, 12) { BigInt::from(0) } else { s };
        FBig::<Rm, B>::from_parts(ibig_of_int(&s), r.range(-30, 30) as isize).with_precision(p).value()
    };
    let mut pool: Vec<FBig<Rm, B>> = (0..npool).map(|_| fresh(r)).collect();
    let mut log: Vec<String> = vec![];
    let mut failure: Option<mon::Fail> = None;
    let steps = 24;
    let mut judged = 0u64;
    for step in 0..steps {
        let (i, j, k) = (r.usize(npool), r.usize(npool), r.usize(npool));
        let (a, b) = (pool[j].clone(), pool[k].clone());
        let (qa, qb) = (q_of_repr(a.repr()), q_of_repr(b.repr()));
        let (pa, pb) = (a.precision(), b.precision());
        let pmax = pa.max(pb);
        let n: i64 = r.range(-99, 99);
        let nq = BigRational::from_integer(BigInt::from(n));
        let sh = r.range(-9, 9) as isize;
        let op = r.below(20);
        let show = |f: &FBig<Rm, B>| format!("{}*{}^{}@{}", f.repr().significand(), base, f.repr().exponent(), f.precision());
        // (name, exact value, expected precision, result); None = skipped
        let res: Result<Option<(&'static str, BigRational, usize, FBig<Rm, B>)>, String> = catch(|| {
            Some(match op {
                0 => ("add", &qa + &qb, pmax, &a + &b),
                1 => ("add_val", &qa + &qb, pmax, a.clone() + b.clone()),
                2 => ("sub", &qa - &qb, pmax, &a - b.clone()),
                3 => ("mul", &qa * &qb, pmax, a.clone() * &b),
                4 => {
                    if qb.is_zero() {
                        return None;
                    }
                    ("div", &qa / &qb, pmax, &a / &b)
                }
                5 => {
                    let mut t = a.clone();
                    t += &b;
                    ("add_assign", &qa + &qb, pmax, t)
                }
                6 => {
                    let mut t = a.clone();
                    t -= b.clone();
                    ("sub_assign", &qa - &qb, pmax, t)
                }
                7 => {
                    let mut t = a.clone();
                    t *= &b;
                    ("mul_assign", &qa * &qb, pmax, t)
                }
                8 => {
                    if qb.is_zero() {
                        return None;
                    }
                    let mut t = a.clone();
                    t /= &b;
                    ("div_assign", &qa / &qb, pmax, t)
                }
                9 => ("neg", -&qa, pa, -a.clone()),
                10 => {
                    let mut t = a.clone();
                    if r.bool() {
                        t <<= sh;
                    } else {
                        t >>= -sh;
                    }
                    ("shift_assign", &qa * pow_q(base, sh as i64), pa, t)
                }
                11 => ("shift", &qa * pow_q(base, sh as i64), pa, if r.bool() { a.clone() << sh } else { a.clone() >> (-sh) }),
                12 => {
                    let np = 1 + r.usize(50);
                    ("with_precision", qa.clone(), np, a.clone().with_precision(np).value())
                }
                13 => {
                    let mut t = b.clone();
                    t.clone_from(&a);
                    ("clone_from", qa.clone(), pa, t)
                }
                14 => ("sqr", &qa * &qa, pa, a.sqr()),
                15 => {
                    let mut t = a.clone();
                    t += n;
                    ("add_assign_int", &qa + &nq, pa.max(digits(&BigInt::from(n), base)), t)
                }
                16 => ("int_sub", &nq - &qa, pa.max(digits(&BigInt::from(n), base)), n - &a),
                17 => {
                    let mut t = a.clone();
                    t *= n;
                    ("mul_assign_int", &qa * &nq, pa.max(digits(&BigInt::from(n), base)), t)
                }
                18 => {
                    if n == 0 {
                        return None;
                    }
                    ("div_int", &qa / &nq, pa.max(digits(&BigInt::from(n), base)), &a / n)
                }
                _ => ("sub_self", BigRational::zero(), pa, &a - &a),
            })
        });
        let (name, x, p, v) = match res {
            Ok(None) => continue,
            Ok(Some(t)) => t,
            Err(pn) => {
                failure = Some(mon::Fail { kind: "unexpected_panic".into(), detail: format!("step {} op#{} on a={} b={} n={} shift={}: {} | last ops: {:?}", step, op, show(&a), show(&b), n, sh, pn, &log[log.len().saturating_sub(6)..]), finding: None });
                break;
            }
        };
        m.note(&format!("hop:{}", name));
        log.push(format!("{}: [{}] = {}([{}]={}, [{}]={}, n={}, sh={}) -> {}", step, i, name, j, show(&a), k, show(&b), n, sh, show(&v)));
        let two_operands = matches!(op, 0..=8);
        let in_scope = digits(&int_of(a.repr().significand()), base) <= p && (!two_operands || digits(&int_of(b.repr().significand()), base) <= p);
        let check: R = (|| {
            if v.repr().is_infinite() {
                return fail("infinite", format!("{}: finite operation returned an infinity", name));
            }
            // digits of an integer operand count as its precision; zero operands carry none
            let p_ok = v.precision() == p || (matches!(op, 15..=18) && n == 0 && v.precision() == pa);
            if !p_ok {
                return fail("precision", format!("{}: result precision {} but the operands call for {}", name, v.precision(), p));
            }
            if !in_scope {
                return Ok(());
            }
            let rq = q_of_repr(v.repr());
            let rd = digits(&int_of(v.repr().significand()), base);
            let flag = if rq == x { Flag::Exact } else if rq > x { Flag::AddOne } else { Flag::SubOne };
            check_contract(&x, &rq, flag, rd, base, v.precision(), Rm::M).or_else(|(kd, dd)| fail(kd, format!("{}: {}", name, dd)))
        })();
        if let Err(mut f) = check {
            f.detail = format!("{} | step {} | last ops: {:?}", f.detail, step, &log[log.len().saturating_sub(6)..]);
            failure = Some(f);
            break;
        }
        if in_scope {
            judged += 1;
        }
        // bound the exponents (the oracle is exact) and keep the pool inside the property's domain
        pool[i] = if v.repr().exponent().unsigned_abs() > 400 || v.precision() == 0 { fresh(r) } else { v };
    }
    m.note_n("history_steps_judged", judged);
    let d = || format!("float history mode={} base={} last ops: {:?}", Rm::M.name(), base, &log[log.len().saturating_sub(8)..]);
    m.check("history", &format!("{}/b{}", Rm::M.name(), base), Some(dvh::rng::hash_str(&log.join(";"))), &d, || match failure {
        Some(f) => Err(f),
        None => Ok(()),
    });
}

fn run<Rm: ModeTag, const B: Word>(m: &mut Mon, r: &mut Rng) {
    if r.chance(1, 16) {
        return history::<Rm, B>(m, r);
    }
    let base = B as u32;
    let p = precision(m, r);
    let ctx = Context::<Rm>::new(p);
    let (da, db) = (1 + r.usize(p), 1 + r.usize(p));
    let (da, db) = match r.below(4) {
        0 => (p, p),
        1 => (p, db),
        _ => (da, db),
    };
    let (sa, sb) = (sig(r, base, da), sig(r, base, db));
    let (na, nb) = (r.bool(), r.bool());
    let ea = r.range(-60, 60);
    // exponent gap classes taken from the addition algorithm's case split
    let gap = match r.below(12) {
        0 | 1 => 0,
        2 | 3 => r.range(-(p as i64), p as i64),
        4 => (p as i64) + r.range(-2, 2),
        5 => -(p as i64) + r.range(-2, 2),
        6 => (da as i64) + r.range(-2, 3),
        7 => -(db as i64) + r.range(-3, 2),
        8 => (p as i64) * 2 + r.range(0, 20),
        9 => -(p as i64) * 2 - r.range(0, 20),
        10 => *r.pick(&[1000i64, -1000, 300, -300]),
        _ => r.range(-3 * p as i64 - 5, 3 * p as i64 + 5),
    };
    let eb = ea + gap;
    let (ia, ib) = (BigInt::from(sa.clone()) * if na { -1 } else { 1 }, BigInt::from(sb.clone()) * if nb { -1 } else { 1 });
    let (qa, qb) = (q_of_parts(&ia, ea, base), q_of_parts(&ib, eb, base));
    let (ra, rb) = (Repr::<B>::new(ibig_of_int(&ia), ea as isize), Repr::<B>::new(ibig_of_int(&ib), eb as isize));
    let opn = r.below(20);
    let opname = match opn {
        18 | 19 => "int_operand",
        16 | 17 => "near_half",
        0..=3 => "add",
        4..=6 => "sub",
        7 => "cancel",
        8 | 9 => "mul",
        10 | 11 => "div",
        12 | 13 => "sqrt",
        14 => "sqr_cubic",
        _ => "inv",
    };
    let gapc = if gap == 0 { "same" } else if gap.unsigned_abs() < p as u64 { "overlap" } else if gap.unsigned_abs() <= p as u64 + 2 { "near_p" } else { "far" };
    let pc = match p {
        1 => "p1",
        2..=3 => "p2-3",
        4..=20 => "p4-20",
        21..=100 => "p21-100",
        _ => "p>100",
    };
    let cell = format!("{}/b{}/{}/{}", Rm::M.name(), base, pc, if matches!(opn, 0..=7) { gapc } else { "-" });
    let h = dvh::gen::hash_limbs(dvh::gen::hash_limbs((p as u64) << 40 ^ (ea as u64) << 20 ^ eb as u64 ^ (na as u64) << 62 ^ (nb as u64) << 63 ^ (base as u64) << 50, &limbs_of_nat(&sa)), &limbs_of_nat(&sb));
    let desc = || format!("{} mode={} base={} p={} a={}{}*{}^{} b={}{}*{}^{}", opname, Rm::M.name(), base, p, if na { "-" } else { "" }, sa.to_str_radix(base.min(36)), base, ea, if nb { "-" } else { "" }, sb.to_str_radix(base.min(36)), base, eb);
    let judge = |x: &BigRational, res: &dashu_float::round::Rounded<FBig<Rm, B>>, what: &str| -> R {
        let flag = Flag::of(res);
        let v = match res {
            dashu_base::Approximation::Exact(v) => v,
            dashu_base::Approximation::Inexact(v, _) => v,
        };
        if v.repr().is_infinite() {
            return fail("infinite", format!("{}: finite operation returned an infinity", what));
        }
        if v.precision() != p {
            return fail("precision", format!("{}: result precision {} != context precision {}", what, v.precision(), p));
        }
        let rq = q_of_repr(v.repr());
        let rd = digits(&int_of(v.repr().significand()), base);
        check_contract(x, &rq, flag, rd, base, p, Rm::M).or_else(|(k, d)| fail(k, format!("{}: {} (result {}*{}^{}, flag {:?})", what, d, v.repr().significand(), base, v.repr().exponent(), flag)))
    };
    match opn {
        0..=3 => m.check("add", &cell, Some(h), &desc, || {
            let res = catch(|| ctx.add(&ra, &rb)).or_else(|p| fail("unexpected_panic", p))?;
            judge(&(&qa + &qb), &res, "add")
        }),
        4..=6 => m.check("sub", &cell, Some(h), &desc, || {
            let res = catch(|| ctx.sub(&ra, &rb)).or_else(|p| fail("unexpected_panic", p))?;
            judge(&(&qa - &qb), &res, "sub")
        }),
        7 => {
            // cancellation: b = -(a) +- tiny, same exponent range
            let delta = BigInt::from(r.below(3)) * if r.bool() { 1 } else { -1 };
            let k = r.usize(da.min(4) + 1);
            let ib2 = -(&ia) * BigInt::from(Pow::pow(&BigUint::from(base), k)) + &delta;
            if digits(&ib2, base) > p {
                return;
            }
            let eb2 = ea - k as i64;
            let rb2 = Repr::<B>::new(ibig_of_int(&ib2), eb2 as isize);
            let qb2 = q_of_parts(&ib2, eb2, base);
            let d2 = || format!("{} b'={}*{}^{}", desc(), ib2, base, eb2);
            m.check("cancel", &cell, Some(h ^ k as u64), &d2, || {
                let res = catch(|| ctx.add(&ra, &rb2)).or_else(|p| fail("unexpected_panic", p))?;
                judge(&(&qa + &qb2), &res, "add(cancel)")?;
                let res = catch(|| ctx.sub(&ra, &Repr::<B>::new(ibig_of_int(&-&ib2), eb2 as isize))).or_else(|p| fail("unexpected_panic", p))?;
                judge(&(&qa + &qb2), &res, "sub(cancel)")
            });
        }
        8 | 9 => m.check("mul", &cell, Some(h), &desc, || {
            let res = catch(|| ctx.mul(&ra, &rb)).or_else(|p| fail("unexpected_panic", p))?;
            judge(&(&qa * &qb), &res, "mul")
        }),
        10 | 11 => {
            // quotients: random, exact (a = q*b), remainder exactly half
            let kind = r.below(4);
            let (ra2, qa2) = match kind {
                0 => {
                    // exact quotient with few digits
                    let qd = 1 + r.usize(p);
                    let qs = BigInt::from(sig(r, base, qd));
                    let prod = &qs * &ib;
                    if digits(&prod, base) > p {
                        (ra.clone(), qa.clone())
                    } else {
                        (Repr::<B>::new(ibig_of_int(&prod), ea as isize), q_of_parts(&prod, ea, base))
                    }
                }
                _ => (ra.clone(), qa.clone()),
            };
            m.check("div", &format!("{}k{}", cell, kind), Some(h ^ kind), &desc, || {
                let res = catch(|| ctx.div(&ra2, &rb)).or_else(|p| fail("unexpected_panic", p))?;
                judge(&(&qa2 / &qb), &res, "div")
            });
        }
        12 | 13 => {
            // sqrt of |a| (perfect squares, squares +- 1, all parities of digit count and exponent)
            let kind = r.below(5);
            let (xs, xe): (BigInt, i64) = match kind {
                0 => {
                    // perfect square that fits
                    let hd = (p / 2).max(1);
                    let sd = 1 + r.usize(hd);
                    let s = BigInt::from(sig(r, base, sd));
                    (&s * &s, 2 * (ea / 2))
                }
                1 => {
                    let hd = (p / 2).max(1);
                    let sd = 1 + r.usize(hd);
                    let s = BigInt::from(sig(r, base, sd));
                    (&s * &s + if r.bool() { 1 } else { -1 }, 2 * (ea / 2))
                }
                _ => (ia.abs(), ea),
            };
            if !xs.is_positive() || digits(&xs, base) > p {
                return;
            }
            let x = q_of_parts(&xs, xe, base);
            let rx = Repr::<B>::new(ibig_of_int(&xs), xe as isize);
            let parity = format!("d{}e{}", digits(&xs, base) % 2, xe.rem_euclid(2));
            let d2 = || format!("sqrt mode={} base={} p={} x={}*{}^{}", Rm::M.name(), base, p, xs, base, xe);
            m.check("sqrt", &format!("{}/{}", cell, parity), Some(h ^ kind), &d2, || {
                let res = catch(|| ctx.sqrt(&rx)).or_else(|p| fail("unexpected_panic", p))?;
                let flag = Flag::of(&res);
                let v = res.value();
                let rq = q_of_repr(v.repr());
                if rq.is_negative() {
                    return fail("wrong_side", "sqrt returned a negative value".to_string());
                }
                let rd = digits(&int_of(v.repr().significand()), base);
                // compare t with sqrt(x) through squares
                let cmp = |t: &BigRational| -> Option<Ordering> {
                    if t.is_negative() {
                        Some(Ordering::Less)
                    } else {
                        Some((t * t).cmp(&x))
                    }
                };
                let fl = floor_log(&x, base);
                let ulp_e = fl.div_euclid(2) - p as i64 + 1;
                check_contract_gen(&cmp, true, ulp_e, &rq, flag, rd, base, p, Rm::M).or_else(|(k, d)| fail(k, format!("sqrt: {} (result {}*{}^{}, flag {:?})", d, v.repr().significand(), base, v.repr().exponent(), flag)))
            });
        }
        14 => m.check("sqr_cubic", &cell, Some(h), &desc, || {
            let res = catch(|| ctx.sqr(&ra)).or_else(|p| fail("unexpected_panic", p))?;
            judge(&(&qa * &qa), &res, "sqr")?;
            let res = catch(|| ctx.cubic(&ra)).or_else(|p| fail("unexpected_panic", p))?;
            judge(&(&qa * &qa * &qa), &res, "cubic")
        }),
        18 | 19 => {
            // the FBig operators with an integer operand (primitive or big, on either side, by value or by reference;
            // each a separate macro arm): the integer is an exact operand, the result obeys the contract at the
            // precision it reports, which is at least the precision of the float operand
            let fa = FBig::<Rm, B>::from_repr(ra.clone(), ctx);
            let n_small: i64 = (sb.iter_u64_digits().next().unwrap_or(7) >> 44) as i64 * if nb { -1 } else { 1 };
            let nbig = ibig_of_int(&ib);
            let which = r.below(4);
            let form = r.below(8);
            let d2 = || format!("int_operand op#{} form#{} mode={} base={} p={} a={}*{}^{} n_small={} n_big={}", which, form, Rm::M.name(), base, p, ia, base, ea, n_small, ib);
            m.check("int_operand", &format!("{}/b{}/{}/op{}", Rm::M.name(), base, pc, which), Some(h ^ 0x1e7 ^ (which << 3) ^ form), &d2, || {
                macro_rules! app {
                    ($op:tt) => {
                        match form {
                            0 => (catch(|| fa.clone() $op n_small), false, false),
                            1 => (catch(|| &fa $op n_small), false, false),
                            2 => (catch(|| n_small $op fa.clone()), true, false),
                            3 => (catch(|| &n_small $op &fa), true, false),
                            4 => (catch(|| fa.clone() $op nbig.clone()), false, true),
                            5 => (catch(|| &fa $op &nbig), false, true),
                            6 => (catch(|| nbig.clone() $op &fa), true, true),
                            _ => (catch(|| &nbig $op &fa), true, true),
                        }
                    };
                }
                let (res, int_left, big) = match which {
                    0 => app!(+),
                    1 => app!(-),
                    2 => app!(*),
                    _ => app!(/),
                };
                let nq = if big { BigRational::from_integer(ib.clone()) } else { BigRational::from_integer(BigInt::from(n_small)) };
                let (l, rr) = if int_left { (nq.clone(), qa.clone()) } else { (qa.clone(), nq.clone()) };
                if which == 3 && rr.is_zero() {
                    return match res {
                        Err(_) => Ok(()),
                        Ok(v) => fail("no_panic", format!("division by zero returned {}*{}^{}", v.repr().significand(), base, v.repr().exponent())),
                    };
                }
                let v = res.or_else(|pn| fail("unexpected_panic", pn))?;
                let x = match which {
                    0 => &l + &rr,
                    1 => &l - &rr,
                    2 => &l * &rr,
                    _ => &l / &rr,
                };
                let rp = v.precision();
                if rp < p {
                    return fail("precision", format!("result precision {} is below the precision {} of the float operand", rp, p));
                }
                let rq = q_of_repr(v.repr());
                let rd = digits(&int_of(v.repr().significand()), base);
                // the operators return a plain FBig: there is no flag to judge, only the side and the distance of the value
                let flag = if rq == x { Flag::Exact } else if rq > x { Flag::AddOne } else { Flag::SubOne };
                check_contract(&x, &rq, flag, rd, base, rp, Rm::M).or_else(|(k, d)| fail(k, format!("{} (result {}*{}^{} at precision {})", d, v.repr().significand(), base, v.repr().exponent(), rp)))
            });
        }
        16 | 17 => {
            // the discarded low part sits on / next to one half of the last kept digit: a (p digits) plus or minus a
            // k-digit tail L * B^(ea-k) with L in {floor(B^k/2) - 1, floor(B^k/2), floor(B^k/2) + 1}. In an odd
            // base floor(B^k/2) = 11..1 is the closest value below one half (there is no exact tie), in an even
            // base it is the exact tie; k reaches past the point where the implementation's f32 pre-filter can decide
            let kmax = if r.bool() { 12 } else { 40 };
            let k = (1 + r.usize(kmax)).min(p);
            let bk = Pow::pow(&BigUint::from(base), k);
            let half = &bk / 2u32;
            let l = match r.below(4) {
                0 => &half - 1u32.min(half.bits() as u32),
                1 | 2 => half.clone(),
                _ => &half + 1u32,
            };
            if l.bits() == 0 {
                return;
            }
            let a_full = BigInt::from(sig(r, base, p)) * if na { -1 } else { 1 };
            if digits(&a_full, base) > p {
                return;
            }
            let il = BigInt::from(l) * if nb { -1 } else { 1 };
            let (ea2, el) = (ea, ea - k as i64);
            let (ra2, rl) = (Repr::<B>::new(ibig_of_int(&a_full), ea2 as isize), Repr::<B>::new(ibig_of_int(&il), el as isize));
            let (qa2, ql) = (q_of_parts(&a_full, ea2, base), q_of_parts(&il, el, base));
            let d2 = || format!("near_half mode={} base={} p={} a={}*{}^{} tail={}*{}^{} (k={})", Rm::M.name(), base, p, a_full, base, ea2, il, base, el, k);
            let swap = r.bool();
            m.check("near_half", &format!("{}/b{}/{}/k{}", Rm::M.name(), base, pc, if k < 7 { "<7" } else { ">=7" }), Some(h ^ (k as u64) << 7 ^ 0x9e37), &d2, || {
                let res = catch(|| if swap { ctx.add(&rl, &ra2) } else { ctx.add(&ra2, &rl) }).or_else(|p| fail("unexpected_panic", p))?;
                judge(&(&qa2 + &ql), &res, "add(near half)")?;
                let res = catch(|| ctx.sub(&ra2, &rl)).or_else(|p| fail("unexpected_panic", p))?;
                judge(&(&qa2 - &ql), &res, "sub(near half)")?;
                Ok(())
            });
        }
        _ => m.check("inv", &cell, Some(h), &desc, || {
            let res = catch(|| ctx.inv(&ra)).or_else(|p| fail("unexpected_panic", p))?;
            judge(&(BigRational::one() / &qa), &res, "inv")
        }),
    }
    let _ = IBig::ZERO;
}

macro_rules! dispatch {
    ($m:expr, $r:expr, $mi:expr, $bi:expr; $($B:literal),*) => {{
        let bases: &[u32] = &[$($B),*];
        let b = bases[$bi % bases.len()];
        $( if b == $B {
            match $mi % 6 {
                0 => run::<mode::Zero, $B>($m, $r),
                1 => run::<mode::Away, $B>($m, $r),
                2 => run::<mode::Up, $B>($m, $r),
                3 => run::<mode::Down, $B>($m, $r),
                4 => run::<mode::HalfEven, $B>($m, $r),
                _ => run::<mode::HalfAway, $B>($m, $r),
            }
        } )*
    }};
}

fn case(m: &mut Mon, r: &mut Rng, idx: u64) {
    let mi = (idx % 6) as usize;
    let bi = ((idx / 6) % 6) as usize;
    dispatch!(m, r, mi, bi; 2, 3, 7, 10, 16, 36);
}

fn main() {
    mon::main(Spec {
        prop: "C03",
        quick_cases: 600_000,
        thorough_cases: 30_000_000,
        rule: "6 rounding modes x bases {2,3,7,10,16,36} (round-robin over case index) x precisions 1..20, 24, 53, 64, 100, 333 (thorough 1000); operand significands with 1..p digits (all-max digits, 10..0, 10..01, half-way patterns, random) and exponent gaps from the addition algorithm's case split (equal, overlapping, p+-2, digit-count+-2, far beyond p, +-1000), crafted cancellations, exact / random quotients, perfect squares +-1 with every parity of digit count and exponent. Every result is judged against the exact rational (sqrt: through squares) by the contract: Exact flag iff equal, < 1 ulp of the true value (<= 1/2 ulp and tie rule in half modes), mode side, AddOne/SubOne sign, exactness when representable, <= p+1 digits. non-trivial = all cases (operands are non-zero by construction).",
        assumptions: &["ulp is B^(floor(log_B |x|) - p + 1) of the true value x (the weakest reading that a correctly rounded p- or (p+1)-digit result satisfies)", "num-rational arithmetic exact"],
        required: &[("add", false), ("sub", false), ("cancel", false), ("mul", false), ("div", false), ("sqrt", false), ("sqr_cubic", false), ("inv", false)],
        case,
        selftest: Some(qref::selftest),
        panic_finding: None,
    });
}
