//! C08 — float text I/O is lossless; base and precision changes are faithfully rounded.
use dashu_base::Approximation;
use dashu_float::{round::mode, FBig};
use dashu_int::{IBig, Word};
use dvh::conv::*;
use dvh::ensure;
use dvh::gen;
use dvh::mon::{self, catch, fail, Mon, Spec, R};
use dvh::qref::{self, check_contract, digits, round_units, Flag, ModeTag};
use dvh::rng::Rng;
use num_bigint::{BigInt, BigUint};
use num_rational::BigRational;
use num_traits::{One, Pow, Signed, Zero};
use std::str::FromStr;

fn digit_char(d: u32, upper: bool) -> char {
    let c = std::char::from_digit(d, 36).unwrap();
    if upper {
        c.to_ascii_uppercase()
    } else {
        c
    }
}

/// random digit string of `n` digits in `base`, returns (text with optional underscores/case, value, n)
fn digit_run(r: &mut Rng, base: u32, n: usize, underscores: bool) -> (String, BigUint) {
    let mut s = String::new();
    let mut v = BigUint::zero();
    for i in 0..n {
        let d = match r.below(6) {
            0 => 0,
            1 => base - 1,
            _ => r.below(base as u64) as u32,
        };
        v = v * base + d;
        s.push(digit_char(d, r.chance(1, 3)));
        if underscores && i + 1 < n && r.chance(1, 7) {
            s.push('_');
        }
    }
    (s, v)
}

/// exact value of a plain positional string "[-]ddd[.ddd]" in the given base (reference parser for printed output)
fn parse_plain(text: &str, base: u32) -> Option<BigRational> {
    let (neg, body) = match text.strip_prefix('-') {
        Some(b) => (true, b),
        None => (false, text),
    };
    let (ip, fp) = match body.split_once('.') {
        Some((a, b)) => (a, b),
        None => (body, ""),
    };
    if ip.is_empty() && fp.is_empty() {
        return None;
    }
    let all = format!("{}{}", ip, fp);
    if !all.chars().all(|c| c.to_digit(36).map_or(false, |d| d < base)) {
        return None;
    }
    let n = BigInt::parse_bytes(all.as_bytes(), base)?;
    let q = BigRational::new(n, Pow::pow(&BigInt::from(base), fp.len()));
    Some(if neg { -q } else { q })
}

/// reference reader for the scientific forms `[-][0x]d[.ddd]<marker>[-]exp`: returns the value denoted and the
/// unit of the last printed digit. `digit_base` is the base of the written digits, `scale_base` the base of the
/// exponent (hex-float output of binary numbers: digits in base 16, exponent in base 2).
fn parse_sci(text: &str, digit_base: u32, scale_base: u32, marker: char, prefix: &str) -> Option<(BigRational, BigRational)> {
    let (neg, body) = match text.strip_prefix('-') {
        Some(b) => (true, b),
        None => (false, text),
    };
    let body = body.strip_prefix(prefix)?;
    let (mant, exp) = body.rsplit_once(marker)?;
    let exp: i64 = exp.parse().ok()?;
    let (ip, fp) = match mant.split_once('.') {
        Some((a, b)) => (a, b),
        None => (mant, ""),
    };
    if ip.chars().count() != 1 {
        return None;
    }
    let all = format!("{}{}", ip, fp);
    if !all.chars().all(|c| c.to_digit(36).map_or(false, |d| d < digit_base)) {
        return None;
    }
    let n = BigInt::parse_bytes(all.to_lowercase().as_bytes(), digit_base)?;
    let unit = pow_q(scale_base, exp) / BigRational::from_integer(Pow::pow(&BigInt::from(digit_base), fp.len()));
    let q = BigRational::from_integer(n) * &unit;
    Some((if neg { -q } else { q }, unit))
}

/// the scientific formats a float type offers: (label, text without precision, text with precision n, digit base,
/// exponent base, marker, prefix)
type SciOut = (&'static str, String, String, u32, u32, char, &'static str);
trait SciFmt {
    fn sci(&self, n: usize) -> Vec<SciOut>;
}
macro_rules! sci_generic {
    // `$B:tt`, not `:literal`: a forwarded literal fragment is opaque and would never match the `2` / `16` arms of sci_extra
    ($B:tt, $lm:literal, $um:literal) => {
        impl<Rm: dashu_float::round::Round> SciFmt for FBig<Rm, $B> {
            fn sci(&self, n: usize) -> Vec<SciOut> {
                #[allow(unused_mut)]
                let mut v: Vec<SciOut> = vec![
                    ("{:e}", format!("{:e}", self), format!("{:.*e}", n, self), $B, $B, $lm, ""),
                    ("{:E}", format!("{:E}", self), format!("{:.*E}", n, self), $B, $B, $um, ""),
                ];
                sci_extra!($B, v, self, n);
                v
            }
        }
    };
}
macro_rules! sci_extra {
    (2, $v:ident, $s:ident, $n:ident) => {
        $v.push(("{:b}", format!("{:b}", $s), format!("{:.*b}", $n, $s), 2, 2, 'b', ""));
        $v.push(("{:x}", format!("{:x}", $s), format!("{:.*x}", $n, $s), 16, 2, 'p', "0x"));
        $v.push(("{:X}", format!("{:X}", $s), format!("{:.*X}", $n, $s), 16, 2, 'p', "0x"));
    };
    (16, $v:ident, $s:ident, $n:ident) => {
        $v.push(("{:x}", format!("{:x}", $s), format!("{:.*x}", $n, $s), 16, 16, 'h', ""));
        $v.push(("{:X}", format!("{:X}", $s), format!("{:.*X}", $n, $s), 16, 16, 'h', ""));
    };
    ($B:tt, $v:ident, $s:ident, $n:ident) => {};
}
sci_generic!(2, '@', '@');
sci_generic!(10, 'e', 'E');
sci_generic!(16, '@', '@');
sci_generic!(3, '@', '@');

fn sig_value(r: &mut Rng, m: &Mon, base: u32) -> BigUint {
    let nd = match r.below(6) {
        0 => 1,
        1 => 2 + r.usize(3),
        2 => if m.thorough() { 100 + r.usize(200) } else { 30 + r.usize(60) },
        _ => 1 + r.usize(25),
    };
    let lo = Pow::pow(&BigUint::from(base), nd - 1);
    let span = Pow::pow(&BigUint::from(base), nd) - &lo;
    match r.below(5) {
        0 => lo,
        1 => &lo + &span - 1u32,
        _ => &lo + nat(&(0..(span.bits() / 64 + 2)).map(|_| r.u64()).collect::<Vec<_>>()) % &span,
    }
}

fn text_case<const B: Word>(m: &mut Mon, r: &mut Rng) {
    let base = B as u32;
    // grammar sentence
    let neg = r.bool();
    let (ni, nf) = (r.usize(12), r.usize(12));
    let (ni, nf) = if ni + nf == 0 { (1, 0) } else { (ni, nf) };
    let hexfloat = base == 2 && r.chance(1, 3);
    let dbase = if hexfloat { 16 } else { base };
    let (it, iv) = digit_run(r, dbase, ni, true);
    let (ft, fv) = digit_run(r, dbase, nf, true);
    let has_dot = nf > 0 || r.chance(1, 4);
    let exp: Option<i64> = if r.chance(1, 2) { Some(r.range(-60, 60)) } else { None };
    let marker = match (base, hexfloat) {
        (2, true) => *r.pick(&["p", "P"]),
        (2, false) => *r.pick(&["b", "B", "@"]),
        (8, _) => *r.pick(&["o", "O", "@"]),
        (10, _) => *r.pick(&["e", "E", "@"]),
        (16, _) => *r.pick(&["h", "H", "@"]),
        _ => "@",
    };
    let mut text = String::new();
    match r.below(3) {
        0 if neg => text.push('-'),
        1 if !neg => text.push('+'),
        _ if neg => text.push('-'),
        _ => {}
    }
    if hexfloat {
        text.push_str(if r.bool() { "0x" } else { "0X" });
    }
    text.push_str(&it);
    if has_dot {
        text.push('.');
        text.push_str(&ft);
    }
    if let Some(e) = exp {
        text.push_str(marker);
        if e >= 0 && r.chance(1, 3) {
            text.push('+');
        }
        text.push_str(&e.to_string());
    }
    // model
    let bits_per = if hexfloat { 4 } else { 1 };
    let mant = BigInt::from(iv * Pow::pow(&BigUint::from(dbase), nf) + fv);
    let scale = exp.unwrap_or(0) - if hexfloat { 4 * nf as i64 } else { nf as i64 };
    let want = q_of_parts(&mant, scale, base) * if neg { -BigRational::one() } else { BigRational::one() };
    let want_prec = (ni + nf) * bits_per;
    let d = || format!("parse base={} text={:?}", base, text);
    let h = dvh::rng::hash_str(&text) ^ base as u64;
    // a hex-float with an empty integer part ("0x.8") and a 'p' marker without the 0x prefix are outside the documented forms
    let strict = ni > 0 || !hexfloat;
    m.check("parse", &format!("b{}{}", base, if hexfloat { "hex" } else { "" }), Some(h), &d, || {
        let res = catch(|| FBig::<mode::Zero, B>::from_str(&text)).or_else(|p| fail("parser_panic", p))?;
        match res {
            Ok(f) => {
                ensure!(q_of_repr(f.repr()) == want, "parse_value", "parsed {:?} as {}*{}^{} but the written value is {}", text, f.repr().significand(), base, f.repr().exponent(), show_q(&want));
                ensure!(f.precision() == want_prec, "parse_precision", "parsed {:?} with precision {} but {} digits were written", text, f.precision(), want_prec);
                Ok(())
            }
            Err(e) => {
                ensure!(!strict, "parse_rejected", "{:?} is in the documented grammar but was rejected: {:?}", text, e);
                Ok(())
            }
        }
    });
}

fn print_case<Rm: ModeTag, const B: Word>(m: &mut Mon, r: &mut Rng)
where
    FBig<Rm, B>: SciFmt,
{
    let base = B as u32;
    let n = r.usize(30);
    let mut s = BigInt::from(sig_value(r, m, base)) * if r.bool() { -1 } else { 1 };
    let mut e = match r.below(6) {
        0 => 0,
        1 => r.range(1, 30),
        2 => -(qref::digits(&s, base) as i64) + r.range(-3, 3),
        _ => r.range(-80, 40),
    };
    if r.chance(1, 5) {
        // the digits dropped by `{:.N}` sit on / next to one half of the last shown digit: a k-digit tail
        // floor(B^k / 2) + {-1, 0, 1} (the closest value below one half in odd bases, the tie in even bases)
        let kmax = if r.bool() { 10 } else { 40 };
        let k = 1 + r.usize(kmax);
        let bk: BigInt = Pow::pow(&BigInt::from(base), k);
        let half: BigInt = &bk / 2i32;
        let tail: BigInt = match r.below(3) {
            0 => (&half - 1i32).max(BigInt::zero()),
            1 => &half + 1i32,
            _ => half,
        };
        let head = BigInt::from(r.below(1_000_000));
        s = (head * &bk + tail) * if r.bool() { -1i32 } else { 1i32 };
        e = -((n + k) as i64);
        if s.is_zero() {
            s = BigInt::one();
        }
    }
    let x = q_of_parts(&s, e, base);
    let f = FBig::<Rm, B>::from_parts(ibig_of_int(&s), e as isize);
    let d = || format!("print mode={} base={} x={}*{}^{} N={}", Rm::M.name(), base, s, base, e, n);
    let h = gen::hash_limbs((e as u64) << 16 ^ n as u64 ^ (base as u64) << 8, &limbs_of_nat(s.magnitude())) ^ s.is_negative() as u64;
    m.check("print", &format!("{}/b{}", Rm::M.name(), base), Some(h), &d, || {
        // no precision option: round trip through the library's own parser, and the text must denote x
        let text = catch(|| f.to_string()).or_else(|p| fail("unexpected_panic", p))?;
        let val = parse_plain(&text, base).ok_or(()).or_else(|_| fail("print_format", format!("printed text {:?} is not a plain positional number", text)))?;
        ensure!(val == x, "print_value", "printed {:?} which denotes {} instead of the value", text, show_q(&val));
        let back = FBig::<Rm, B>::from_str(&text).or_else(|e| fail("parse_rejected", format!("own output {:?} rejected: {:?}", text, e)))?;
        ensure!(back == f, "roundtrip", "parse(to_string(x)) != x for text {:?}", text);
        // with a precision option: correctly rounded to N fractional digits under the mode of the type
        let t2 = catch(|| format!("{:.*}", n, f)).or_else(|p| fail("unexpected_panic", p))?;
        let v2 = parse_plain(&t2, base).ok_or(()).or_else(|_| fail("print_format", format!("printed text {:?} is not a plain positional number", t2)))?;
        let unit = pow_q(base, -(n as i64));
        let want = BigRational::from_integer(round_units(&(&x / &unit), Rm::M)) * &unit;
        ensure!(v2 == want, "print_rounding", "{{:.{}}} printed {:?} = {} but the value rounded under {} is {}", n, t2, show_q(&v2), Rm::M.name(), show_q(&want));
        // the number of fractional digits shown is exactly N (when N > 0)
        if n > 0 {
            let fd = t2.split_once('.').map(|(_, b)| b.len()).unwrap_or(0);
            ensure!(fd == n, "print_format", "{{:.{}}} printed {:?} with {} fractional digits", n, t2, fd);
        }
        Ok(())
    });
    // with_precision: exact when the value fits, else the rounding contract of the mode at the new precision, and
    // never more than the target precision (+1) digits. Significands next to a power of the base (B^j + tiny,
    // B^j - tiny) are the ones digit-count estimates get wrong
    {
        let j = 2 + r.usize(45);
        let bj: BigInt = Pow::pow(&BigInt::from(base), j);
        let tiny = BigInt::from(1 + r.below(3));
        let s2: BigInt = match r.below(4) {
            0 => &bj + &tiny,
            1 => &bj - &tiny,
            2 => &bj * BigInt::from(1 + r.below(base as u64 - 1)) + &tiny,
            _ => s.clone(),
        } * if r.bool() { -1i32 } else { 1i32 };
        let e2 = r.range(-60, 20);
        let x2 = q_of_parts(&s2, e2, base);
        let f2 = FBig::<Rm, B>::from_parts(ibig_of_int(&s2), e2 as isize);
        let sd = qref::digits(&s2, base);
        let k = match r.below(4) {
            0 => sd.saturating_sub(1).max(1),
            1 => sd,
            2 => 1 + r.usize(sd),
            _ => sd + 1 + r.usize(5),
        };
        let d = || format!("with_precision mode={} base={} x={}*{}^{} k={}", Rm::M.name(), base, s2, base, e2, k);
        m.check("with_precision", &format!("{}/b{}", Rm::M.name(), base), Some(gen::hash_limbs((e2 as u64) << 16 ^ (k as u64) << 40 ^ (base as u64) << 8 ^ 0x77, &limbs_of_nat(s2.magnitude()))), &d, || {
            let res = catch(|| f2.clone().with_precision(k)).or_else(|p| fail("unexpected_panic", p))?;
            let flag = Flag::of(&res);
            let v = res.value();
            ensure!(v.precision() == k, "precision", "with_precision({}) produced precision {}", k, v.precision());
            let vd = digits(&int_of(v.repr().significand()), base);
            if k >= sd {
                ensure!(flag == Flag::Exact && q_of_repr(v.repr()) == x2, "value", "with_precision({}) of a {}-digit value is not exact ({}*{}^{}, {:?})", k, sd, v.repr().significand(), base, v.repr().exponent(), flag);
            }
            check_contract(&x2, &q_of_repr(v.repr()), flag, vd, base, k, Rm::M).or_else(|(kind, dd)| fail(kind, format!("with_precision({}): {} (result {}*{}^{}, flag {:?})", k, dd, v.repr().significand(), base, v.repr().exponent(), flag)))
        });
    }
    // scientific forms: without a precision the text denotes the value exactly; with a precision N the text
    // denotes the value rounded, under the mode of the type, to the unit of the last digit it shows, and it
    // shows at least N fractional digits
    let ns = r.usize(12);
    let d = || format!("print_sci mode={} base={} x={}*{}^{} N={}", Rm::M.name(), base, s, base, e, ns);
    let mut labels: Vec<&'static str> = vec![];
    m.check("print_sci", &format!("{}/b{}", Rm::M.name(), base), Some(h ^ 0x5c1 ^ (ns as u64) << 32), &d, || {
        let outs = catch(|| f.sci(ns)).or_else(|p| fail("unexpected_panic", p))?;
        for (label, plain, withp, db, sb, marker, prefix) in outs {
            labels.push(label);
            let (v, _) = parse_sci(&plain, db, sb, marker, prefix).ok_or(()).or_else(|_| fail("print_format", format!("{} printed {:?}, not of the form d.ddd{}exp", label, plain, marker)))?;
            ensure!(v == x, "print_value", "{} printed {:?} which denotes {} instead of the value", label, plain, show_q(&v));
            let (v2, unit) = parse_sci(&withp, db, sb, marker, prefix).ok_or(()).or_else(|_| fail("print_format", format!("{} with precision {} printed {:?}, not of the form d.ddd{}exp", label, ns, withp, marker)))?;
            let want = BigRational::from_integer(round_units(&(&x / &unit), Rm::M)) * &unit;
            ensure!(v2 == want, "print_rounding", "{} with precision {} printed {:?} = {} but the value rounded under {} to the last shown digit is {}", label, ns, withp, show_q(&v2), Rm::M.name(), show_q(&want));
            let shown = withp.split(marker).next().unwrap_or("").split_once('.').map(|(_, b)| b.len()).unwrap_or(0);
            ensure!(shown >= ns, "print_format", "{} with precision {} printed {:?} with only {} fractional digits", label, ns, withp, shown);
        }
        Ok(())
    });
    // which formats were really read back (a format that is silently not dispatched must show as missing coverage)
    for l in labels {
        m.note(&format!("fmt:{}/b{}", l, base));
    }
}

fn base_case<Rm: ModeTag, const B: Word, const NB: Word>(m: &mut Mon, r: &mut Rng) {
    let (base, nbase) = (B as u32, NB as u32);
    if r.chance(1, 40) {
        // zero is representable in every base at every precision, also when it carries the unlimited precision of the
        // constants (ZERO, default(), try_from(0.0)) or of with_precision(0)
        let kind = r.below(5);
        let pz = 1 + r.usize(30);
        let z: FBig<Rm, B> = match kind {
            0 => FBig::<Rm, B>::ZERO,
            1 => FBig::<Rm, B>::default(),
            2 => FBig::<Rm, B>::from_parts(IBig::from(0), 0).with_precision(pz).value(),
            3 => FBig::<Rm, B>::from_parts(IBig::from(0), 0).with_precision(0).value(),
            _ => FBig::<Rm, B>::from_parts(IBig::from(7), 0).with_precision(pz).value() * FBig::<Rm, B>::ZERO,
        };
        let explicit = r.chance(1, 3);
        m.check("with_base", &format!("{}/{}to{}/zero", Rm::M.name(), base, nbase), Some(kind ^ (base as u64) << 8 ^ (nbase as u64) << 16 ^ (explicit as u64) << 24 ^ (pz as u64) << 32), &|| format!("with_base of zero kind#{} (precision {}) mode={} {}->{} explicit={}", kind, z.precision(), Rm::M.name(), base, nbase, explicit), || {
            let res = catch(|| if explicit { z.clone().with_base_and_precision::<NB>(pz) } else { z.clone().with_base::<NB>() }).or_else(|pn| fail("unexpected_panic", pn))?;
            let flag = Flag::of(&res);
            let v = res.value();
            ensure!(flag == Flag::Exact && v.repr().is_zero(), "value", "zero converted to {}*{}^{} flagged {:?}", v.repr().significand(), nbase, v.repr().exponent(), flag);
            Ok(())
        });
        return;
    }
    let s = BigInt::from(sig_value(r, m, base)) * if r.bool() { -1 } else { 1 };
    let sd = qref::digits(&s, base);
    let p = sd + r.usize(10);
    let e = match r.below(8) {
        0 => 0,
        1 => r.range(-5, 5),
        2 => r.range(-38, 38),
        3 => *r.pick(&[38i64, 39, 40, -38, -39, -40]),
        4 => r.range(-400, 400),
        5 if m.thorough() => r.range(-6000, 6000),
        _ => r.range(-60, 60),
    };
    let x = q_of_parts(&s, e, base);
    let f = FBig::<Rm, B>::from_parts(ibig_of_int(&s), e as isize).with_precision(p).value();
    // the documented target precision: NewB^p' <= B^p
    let bp = Pow::pow(&BigUint::from(base), p);
    // when even one digit of the new base holds more than the source precision, the target precision is 1
    // (never 0, which would mean unlimited)
    let tiny = bp < BigUint::from(nbase);
    let explicit = r.chance(1, 3);
    let pe = 1 + r.usize(40);
    let ecls = if e.abs() <= 38 { "small_exp" } else { "large_exp" };
    let d = || format!("with_base mode={} {}->{} p={} x={}*{}^{} explicit={:?}", Rm::M.name(), base, nbase, p, s, base, e, if explicit { Some(pe) } else { None });
    let h = gen::hash_limbs((e as u64) << 20 ^ (p as u64) << 8 ^ (base as u64) << 50 ^ (nbase as u64) << 56 ^ explicit as u64, &limbs_of_nat(s.magnitude()));
    m.check("with_base", &format!("{}/{}to{}/{}", Rm::M.name(), base, nbase, ecls), Some(h), &d, || {
        let res = catch(|| if explicit { f.clone().with_base_and_precision::<NB>(pe) } else { f.clone().with_base::<NB>() }).or_else(|pn| fail("unexpected_panic", pn))?;
        let flag = Flag::of(&res);
        let v = res.value();
        let pp = v.precision();
        if explicit {
            ensure!(pp == pe, "precision", "with_base_and_precision({}) produced precision {}", pe, pp);
        } else {
            // NewB^p' <= B^p (and p' is not wastefully small: NewB^(p'+2) > B^p)
            ensure!(pp >= 1, "precision", "with_base chose precision {}", pp);
            ensure!(if tiny { pp == 1 } else { Pow::pow(&BigUint::from(nbase), pp) <= bp }, "precision", "with_base chose precision {} but {}^{} > {}^{}", pp, nbase, pp, base, p);
            ensure!(Pow::pow(&BigUint::from(nbase), pp + 2) > bp, "precision", "with_base chose precision {} although {}^{} <= {}^{}", pp, nbase, pp + 2, base, p);
        }
        let rq = q_of_repr(v.repr());
        check_contract(&x, &rq, flag, digits(&int_of(v.repr().significand()), nbase), nbase, pp, Rm::M)
            .or_else(|(k, dd)| fail(k, format!("{} (result {}*{}^{} at precision {}, flag {:?})", dd, v.repr().significand(), nbase, v.repr().exponent(), pp, flag)))
    });
}

fn case(m: &mut Mon, r: &mut Rng, idx: u64) {
    match r.below(10) {
        0..=2 => match idx % 6 {
            0 => text_case::<2>(m, r),
            1 => text_case::<8>(m, r),
            2 => text_case::<10>(m, r),
            3 => text_case::<16>(m, r),
            4 => text_case::<3>(m, r),
            _ => text_case::<36>(m, r),
        },
        3..=5 => {
            macro_rules! go {
                ($B:literal) => {
                    match (idx / 4) % 6 {
                        0 => print_case::<mode::Zero, $B>(m, r),
                        1 => print_case::<mode::Away, $B>(m, r),
                        2 => print_case::<mode::Up, $B>(m, r),
                        3 => print_case::<mode::Down, $B>(m, r),
                        4 => print_case::<mode::HalfEven, $B>(m, r),
                        _ => print_case::<mode::HalfAway, $B>(m, r),
                    }
                };
            }
            match idx % 4 {
                0 => go!(2),
                1 => go!(10),
                2 => go!(16),
                _ => go!(3),
            }
        }
        6 => {
            // mutated / arbitrary strings: never a panic
            let alphabet: &[char] = &['0', '1', '9', 'a', 'f', 'e', 'E', 'p', 'b', 'h', 'o', '@', '.', '_', '+', '-', 'x', 'X', ' ', 'é', 'z'];
            let len = r.usize(24);
            let s: String = (0..len).map(|_| *r.pick(alphabet)).collect();
            let d = || format!("arbitrary text={:?}", s);
            m.check("arbitrary", "", Some(dvh::rng::hash_str(&s)), &d, || {
                catch(|| FBig::<mode::Zero, 2>::from_str(&s).is_ok()).or_else(|p| fail("parser_panic", format!("base 2: {}", p)))?;
                catch(|| FBig::<mode::HalfAway, 10>::from_str(&s).is_ok()).or_else(|p| fail("parser_panic", format!("base 10: {}", p)))?;
                catch(|| FBig::<mode::Zero, 16>::from_str(&s).is_ok()).or_else(|p| fail("parser_panic", format!("base 16: {}", p)))?;
                catch(|| FBig::<mode::Zero, 36>::from_str(&s).is_ok()).or_else(|p| fail("parser_panic", format!("base 36: {}", p)))?;
                // text without any digit can never be a number
                // (underscore-only text is a grey zone of the integer parser, see C07)
                if !s.chars().any(|c| c.is_ascii_alphanumeric() || c == '_') {
                    ensure!(FBig::<mode::HalfAway, 10>::from_str(&s).is_err(), "accepted_invalid", "text without digits accepted: {:?}", s);
                }
                Ok(())
            });
        }
        _ => {
            macro_rules! modes {
                ($B:literal, $NB:literal) => {
                    match (idx / 7) % 6 {
                        0 => base_case::<mode::Zero, $B, $NB>(m, r),
                        1 => base_case::<mode::Away, $B, $NB>(m, r),
                        2 => base_case::<mode::Up, $B, $NB>(m, r),
                        3 => base_case::<mode::Down, $B, $NB>(m, r),
                        4 => base_case::<mode::HalfEven, $B, $NB>(m, r),
                        _ => base_case::<mode::HalfAway, $B, $NB>(m, r),
                    }
                };
            }
            match idx % 7 {
                0 => modes!(10, 2),
                1 => modes!(2, 10),
                2 => modes!(2, 16),
                3 => modes!(16, 2),
                4 => modes!(3, 10),
                5 => modes!(10, 3),
                _ => modes!(8, 36),
            }
        }
    }
    let _ = Approximation::<u8, u8>::Exact(0);
}

fn selftest() -> Result<(), String> {
    qref::selftest()?;
    if parse_plain("-12.50", 10) != Some(BigRational::new(BigInt::from(-25), BigInt::from(2))) {
        return Err("parse_plain".into());
    }
    if parse_plain("ff.8", 16) != Some(BigRational::new(BigInt::from(511), BigInt::from(2))) {
        return Err("parse_plain hex".into());
    }
    Ok(())
}

fn main() {
    mon::main(Spec {
        prop: "C08",
        quick_cases: 300_000,
        thorough_cases: 8_000_000,
        rule: "Parsing: sentences of the documented grammar for bases 2, 8, 10, 16, 3, 36 (sign, integer/fraction parts of 0..11 digits with underscores and mixed case, optional trailing dot, exponent markers e/E/b/B/o/O/h/H/@ with signed decimal exponents, hex-float 0x..p.. for base 2) compared with the exact written value and digit count; arbitrary/mutated strings must not panic. Printing: floats of 1..300 digits and exponents -80..40 (4 bases x 6 modes): the text without a precision option must denote the value exactly (own reference reader) and parse back equal; with {:.N} it must denote the value rounded to N fractional digits under the type's mode. Base changes (7 base pairs x 6 modes, exponents in the exact, small (<= 38) and ln/exp (up to +-400, thorough +-6000) branches of convert_base, with_base and with_base_and_precision): rounding contract against the exact rational, and the target precision rule NewB^p' <= B^p.",
        assumptions: &["a hex-float with an empty integer part or a trailing sign inside the fraction is outside the documented forms (no-panic only)", "ulp is taken from the true value"],
        required: &[("parse/b2", false), ("parse/b10", false), ("parse/b16", false), ("print/", false), ("with_base/", false), ("arbitrary", false), ("fmt:{:e}/b10", false), ("fmt:{:E}/b3", false), ("fmt:{:b}/b2", false), ("fmt:{:x}/b2", false), ("fmt:{:X}/b2", false), ("fmt:{:x}/b16", false), ("fmt:{:X}/b16", false)],
        case,
        selftest: Some(selftest),
        panic_finding: None,
    });
}
