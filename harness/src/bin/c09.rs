//! C09 — bit operations follow infinite two's-complement semantics.
use dashu_base::{BitTest, PowerOfTwo};
use dashu_int::{IBig, UBig};
use dvh::conv::*;
use dvh::gen;
use dvh::mon::{self, catch, fail, Mon, Spec, R};
use dvh::rng::Rng;
use dvh::{ensure, layout};
use num_bigint::{BigInt, BigUint};
use num_traits::{One, Signed, Zero};

fn max_limbs(m: &Mon, r: &mut Rng) -> usize {
    if m.thorough() {
        match r.below(100) {
            0 => 10_000,
            1..=9 => 1_000,
            _ => 100,
        }
    } else {
        match r.below(100) {
            0..=4 => 400,
            _ => 40,
        }
    }
}

fn operand(m: &Mon, r: &mut Rng) -> Vec<u64> {
    match r.below(10) {
        0..=4 => gen::small_mag(r),
        5 => {
            // exactly 1, 2 or 3 limbs with low limbs zero / all ones
            let n = 1 + r.usize(3);
            let mut v = vec![*r.pick(&[0u64, u64::MAX]); n];
            v[n - 1] = r.word().max(1);
            v
        }
        6 => {
            // power of two
            let n = 1 + r.usize(5);
            let mut v = vec![0u64; n];
            v[n - 1] = 1 << r.below(64);
            v
        }
        _ => {
            let mx = max_limbs(m, r);
            gen::mag(r, mx)
        }
    }
}

/// the sign bits of an infinitely sign-extended two's complement number
fn na_nonzero(v: &BigInt) -> bool {
    v.is_negative()
}

/// interesting bit positions / shift counts relative to a bit length
fn pos(r: &mut Rng, bits: usize) -> usize {
    match r.below(12) {
        0 => 0,
        1 => 1,
        2 => *r.pick(&[31usize, 32, 33, 63, 64, 65, 127, 128, 129, 191, 192, 193]),
        3 => 64 * r.usize(8),
        4 => bits,
        5 => bits.saturating_sub(1),
        6 => bits + 1,
        7 => bits + 64 * r.usize(4) + r.usize(3),
        8 => (bits / 64) * 64,
        9 => r.usize(bits + 2),
        10 => r.usize(300),
        _ => r.usize(bits * 2 + 70),
    }
}

fn eq_u(got: &UBig, want: &BigUint, what: &str) -> R {
    if let Err(e) = layout::check_u(got) {
        return fail("layout", format!("{}: {}", what, e));
    }
    ensure!(nat_of(got) == *want, "value", "{}: got {} want {}", what, show_u(got), show_nat(want));
    Ok(())
}

fn eq_i(got: &IBig, want: &BigInt, what: &str) -> R {
    if let Err(e) = layout::check_i(got) {
        return fail("layout", format!("{}: {}", what, e));
    }
    ensure!(int_of(got) == *want, "value", "{}: got {} want {}", what, show_i(got), show_int(want));
    Ok(())
}

/// two's complement bit n of a model integer
fn model_bit(x: &BigInt, n: usize) -> bool {
    // floor(x / 2^n) mod 2, BigInt >> is floor (arithmetic) shift
    let s: BigInt = x >> n;
    (s & BigInt::one()) == BigInt::one()
}

fn case(m: &mut Mon, r: &mut Rng, _idx: u64) {
    let a = operand(m, r);
    let b = if r.chance(1, 8) { a.clone() } else { operand(m, r) };
    let (na, nb) = (r.bool(), r.bool());
    let (la, lb) = (gen::nlimbs(&a), gen::nlimbs(&b));
    let h = gen::hash_limbs(gen::hash_limbs(na as u64 * 2 + nb as u64, &a), &b);
    let signs = format!("{}{}", if na { '-' } else { '+' }, if nb { '-' } else { '+' });
    let form = r.below(4);
    let (mua, mub) = (nat(&a), nat(&b));
    let (mia, mib) = (int(na, &a), int(nb, &b));
    let bits = mua.bits() as usize;
    let n = pos(r, bits);
    let desc = |op: &str| format!("{} a={}{} b={}{} n={} form={}", op, if na { "-" } else { "" }, gen::hex(&a), if nb { "-" } else { "" }, gen::hex(&b), n, form);
    let cell2 = format!("{}x{}", gen::size_class(la), gen::size_class(lb));
    let ncls = if n == 0 { "0" } else if n % 64 == 0 { "k64" } else if n < bits { "in" } else if n == bits { "eq" } else { "beyond" };

    match r.below(14) {
        0 | 1 => {
            let (x, y) = (ubig(&a), ubig(&b));
            m.check("ubig_bitops", &cell2, if la > 0 && lb > 0 { Some(h) } else { None }, &|| desc("ubig_bitops"), || {
                let (and, or, xor) = match form {
                    0 => (&x & &y, &x | &y, &x ^ &y),
                    1 => (x.clone() & y.clone(), x.clone() | y.clone(), x.clone() ^ y.clone()),
                    2 => (x.clone() & &y, &x | y.clone(), x.clone() ^ &y),
                    _ => {
                        let (mut p, mut q, mut s) = (x.clone(), x.clone(), x.clone());
                        p &= &y;
                        q |= &y;
                        s ^= y.clone();
                        (p, q, s)
                    }
                };
                eq_u(&and, &(&mua & &mub), "a&b")?;
                eq_u(&or, &(&mua | &mub), "a|b")?;
                eq_u(&xor, &(&mua ^ &mub), "a^b")
            });
        }
        2 | 3 | 4 => {
            let (x, y) = (ibig(na, &a), ibig(nb, &b));
            m.check("ibig_bitops", &format!("{}/{}", cell2, signs), if la > 0 && lb > 0 { Some(h) } else { None }, &|| desc("ibig_bitops"), || {
                let (and, or, xor) = match form {
                    0 => (&x & &y, &x | &y, &x ^ &y),
                    1 => (x.clone() & y.clone(), x.clone() | y.clone(), x.clone() ^ y.clone()),
                    2 => (x.clone() & &y, &x | y.clone(), x.clone() ^ &y),
                    _ => {
                        let (mut p, mut q, mut s) = (x.clone(), x.clone(), x.clone());
                        p &= &y;
                        q |= y.clone();
                        s ^= &y;
                        (p, q, s)
                    }
                };
                eq_i(&and, &(&mia & &mib), "a&b")?;
                eq_i(&or, &(&mia | &mib), "a|b")?;
                eq_i(&xor, &(&mia ^ &mib), "a^b")?;
                eq_i(&!&x, &!&mia, "!a")?;
                eq_i(&!x.clone(), &!&mia, "!a val")
            });
        }
        5 => {
            // mixed UBig/IBig: same as converting both to IBig
            let (xu, yi) = (ubig(&a), ibig(nb, &b));
            let ma = BigInt::from(mua.clone());
            m.check("mixed_bitops", &format!("{}/{}", cell2, if nb { '-' } else { '+' }), if la > 0 && lb > 0 { Some(h) } else { None }, &|| desc("mixed_bitops"), || {
                let want_and = &ma & &mib; // non-negative because a >= 0
                ensure!(!want_and.is_negative(), "oracle", "model and negative");
                eq_u(&(&xu & &yi), want_and.magnitude(), "u&i")?;
                eq_u(&(&yi & &xu), want_and.magnitude(), "i&u")?;
                eq_i(&(&xu | &yi), &(&ma | &mib), "u|i")?;
                eq_i(&(&yi | &xu), &(&ma | &mib), "i|u")?;
                eq_i(&(&xu ^ &yi), &(&ma ^ &mib), "u^i")?;
                eq_i(&(yi.clone() ^ xu.clone()), &(&ma ^ &mib), "i^u")?;
                let mut t = xu.clone();
                t &= &yi;
                eq_u(&t, want_and.magnitude(), "u&=i")?;
                let mut t = yi.clone();
                t |= &xu;
                eq_i(&t, &(&ma | &mib), "i|=u")?;
                let mut t = yi.clone();
                t ^= &xu;
                eq_i(&t, &(&ma ^ &mib), "i^=u")?;
                let mut t = yi.clone();
                t &= &xu;
                eq_i(&t, &want_and, "i&=u")
            });
        }
        6 | 7 => {
            // shifts
            let (x, xi) = (ubig(&a), ibig(na, &a));
            // bound left shifts so that the result stays small enough
            let nl = n.min(64 * 2000);
            m.check("shift", &format!("{}/{}/{}", gen::size_class(la), ncls, if na { '-' } else { '+' }), if la > 0 && n > 0 { Some(h ^ n as u64) } else { None }, &|| desc("shift"), || {
                eq_u(&(&x << nl), &(&mua << nl), "u<<n")?;
                eq_u(&(x.clone() << nl), &(&mua << nl), "u<<n val")?;
                eq_u(&(&x >> n), &(&mua >> n), "u>>n")?;
                eq_u(&(x.clone() >> n), &(&mua >> n), "u>>n val")?;
                eq_i(&(&xi << nl), &(&mia << nl), "i<<n")?;
                eq_i(&(xi.clone() << nl), &(&mia << nl), "i<<n val")?;
                // BigInt >> rounds toward negative infinity (floor), the documented IBig semantics
                eq_i(&(&xi >> n), &(&mia >> n), "i>>n")?;
                eq_i(&(xi.clone() >> n), &(&mia >> n), "i>>n val")?;
                let mut t = x.clone();
                t <<= nl;
                eq_u(&t, &(&mua << nl), "u<<=n")?;
                let mut t = x.clone();
                t >>= n;
                eq_u(&t, &(&mua >> n), "u>>=n")?;
                let mut t = xi.clone();
                t <<= nl;
                eq_i(&t, &(&mia << nl), "i<<=n")?;
                let mut t = xi.clone();
                t >>= n;
                eq_i(&t, &(&mia >> n), "i>>=n")
            });
        }
        8 | 9 => {
            // bit tests, set/clear, split, clear_high_bits
            let (x, xi) = (ubig(&a), ibig(na, &a));
            let nl = n.min(64 * 2000);
            m.check("bit_access", &format!("{}/{}/{}", gen::size_class(la), ncls, if na { '-' } else { '+' }), if la > 0 { Some(h ^ n as u64) } else { None }, &|| desc("bit_access"), || {
                ensure!(x.bit(n) == model_bit(&BigInt::from(mua.clone()), n), "value", "ubig.bit({}) = {}", n, x.bit(n));
                ensure!(xi.bit(n) == model_bit(&mia, n), "value", "ibig.bit({}) = {}", n, xi.bit(n));
                let mut t = x.clone();
                t.set_bit(nl);
                eq_u(&t, &(&mua | (BigUint::one() << nl)), "set_bit")?;
                let mut t = x.clone();
                t.clear_bit(n);
                let mask = BigUint::one() << n;
                let want = if (&mua & &mask).is_zero() { mua.clone() } else { &mua - &mask };
                eq_u(&t, &want, "clear_bit")?;
                let lowmask = (BigUint::one() << n) - 1u32;
                let (lo, hi) = x.clone().split_bits(n);
                eq_u(&lo, &(&mua & &lowmask), "split_bits.lo")?;
                eq_u(&hi, &(&mua >> n), "split_bits.hi")?;
                let mut t = x.clone();
                t.clear_high_bits(n);
                eq_u(&t, &(&mua & &lowmask), "clear_high_bits")?;
                // positions at the very end of the usize range: all "infinitely many" zero bits above the value
                let huge = usize::MAX - (h as usize % 130);
                for hn in [huge, usize::MAX / 2 + (h as usize % 3), (1usize << 40) + (h as usize % 67)] {
                    let res = catch(|| {
                        let (lo, hi) = x.clone().split_bits(hn);
                        let mut t = x.clone();
                        t.clear_high_bits(hn);
                        let mut c = x.clone();
                        c.clear_bit(hn);
                        (lo, hi, t, c, x.bit(hn), xi.bit(hn), &x >> hn, &xi >> hn)
                    })
                    .or_else(|p| fail("unexpected_panic", format!("bit position {}: {}", hn, p)))?;
                    eq_u(&res.0, &mua, "split_bits(huge).lo")?;
                    ensure!(res.1.is_zero(), "value", "split_bits({}).hi = {}", hn, show_u(&res.1));
                    eq_u(&res.2, &mua, "clear_high_bits(huge)")?;
                    eq_u(&res.3, &mua, "clear_bit(huge)")?;
                    ensure!(!res.4 && res.5 == na_nonzero(&mia), "value", "bit({}) = {} / {} for a value of sign {}", hn, res.4, res.5, if mia.is_negative() { '-' } else { '+' });
                    ensure!(res.6.is_zero(), "value", "ubig >> {} = {}", hn, show_u(&res.6));
                    eq_i(&res.7, &if mia.is_negative() { BigInt::from(-1) } else { BigInt::zero() }, "ibig >> huge")?;
                }
                Ok(())
            });
        }
        10 | 11 => {
            // scans and counts
            let (x, xi) = (ubig(&a), ibig(na, &a));
            m.check("scan", &format!("{}/{}", gen::size_class(la), if na { '-' } else { '+' }), if la > 0 { Some(h) } else { None }, &|| desc("scan"), || {
                let tz = if mua.is_zero() { None } else { Some(mua.trailing_zeros().unwrap() as usize) };
                let got = catch(|| x.trailing_zeros()).or_else(|p| fail("unexpected_panic", format!("ubig.trailing_zeros: {}", p)))?;
                ensure!(got == tz, "value", "ubig.trailing_zeros = {:?} want {:?}", got, tz);
                ensure!(xi.trailing_zeros() == tz, "value", "ibig.trailing_zeros = {:?} want {:?}", xi.trailing_zeros(), tz);
                // trailing ones of x = trailing zeros of x + 1 (two's complement); -1 has infinitely many
                let to_u = (&mua + 1u32).trailing_zeros().unwrap() as usize;
                let got = catch(|| x.trailing_ones()).or_else(|p| fail("unexpected_panic", format!("ubig.trailing_ones: {}", p)))?;
                ensure!(got == Some(to_u), "value", "ubig.trailing_ones = {:?} want {}", got, to_u);
                let plus1: BigInt = &mia + 1i32;
                let to_i = if plus1.is_zero() { None } else { Some(plus1.magnitude().trailing_zeros().unwrap() as usize) };
                let got = catch(|| xi.trailing_ones()).or_else(|p| fail("unexpected_panic", format!("ibig.trailing_ones: {}", p)))?;
                ensure!(got == to_i, "value", "ibig.trailing_ones = {:?} want {:?}", got, to_i);
                let ones = mua.count_ones() as usize;
                ensure!(x.count_ones() == ones, "value", "count_ones = {} want {}", x.count_ones(), ones);
                let zeros = if mua.is_zero() { None } else { Some(mua.bits() as usize - ones) };
                ensure!(x.count_zeros() == zeros, "value", "count_zeros = {:?} want {:?}", x.count_zeros(), zeros);
                ensure!(x.bit_len() == mua.bits() as usize, "value", "ubig.bit_len = {} want {}", x.bit_len(), mua.bits());
                ensure!(xi.bit_len() == mua.bits() as usize, "value", "ibig.bit_len = {} want {}", xi.bit_len(), mua.bits());
                let pow2 = !mua.is_zero() && mua.count_ones() == 1;
                ensure!(x.is_power_of_two() == pow2, "value", "is_power_of_two = {} want {}", x.is_power_of_two(), pow2);
                let npt = if mua.is_zero() { BigUint::one() } else if pow2 { mua.clone() } else { BigUint::one() << (mua.bits() as usize) };
                eq_u(&x.clone().next_power_of_two(), &npt, "next_power_of_two")
            });
        }
        12 => {
            // UBig::ones
            let k = match r.below(6) {
                0 => 64 * r.usize(40),
                1 => 64 * r.usize(8) + r.usize(3),
                2 => (64 * r.usize(8)).saturating_sub(1),
                _ => n,
            }
            .min(64 * 3000);
            m.check("ones", if k % 64 == 0 { "k64" } else { "other" }, Some(k as u64), &|| format!("ones({})", k), || {
                let got = UBig::ones(k);
                eq_u(&got, &((BigUint::one() << k) - 1u32), "ones")
            });
        }
        _ => {
            // primitive operands: same as converting both to IBig
            let (x, xi) = (ubig(&a), ibig(na, &a));
            let ma = BigInt::from(mua.clone());
            let p = r.word();
            let which = r.below(10);
            let d = || format!("prim_bitops a={}{} p={:#x} which={}", if na { "-" } else { "" }, gen::hex(&a), p, which);
            // the primitive integers implement the same bit-test trait: two's complement with infinitely many sign bits
            m.check("prim_bit_test", "", Some(p ^ 0x51), &|| format!("prim_bit_test p={:#x}", p), || {
                use dashu_base::BitTest;
                macro_rules! pt {
                    ($t:ty) => {{
                        let v = p as $t;
                        let model = BigInt::from(v);
                        for n in [0usize, 1, 2, (<$t>::BITS - 2) as usize, (<$t>::BITS - 1) as usize, <$t>::BITS as usize, <$t>::BITS as usize + 1, 200, (p % 140) as usize] {
                            ensure!(v.bit(n) == model_bit(&model, n), "value", "({}{}).bit({}) = {}", v, stringify!($t), n, v.bit(n));
                        }
                    }};
                }
                pt!(u8);
                pt!(u16);
                pt!(u32);
                pt!(u64);
                pt!(u128);
                pt!(usize);
                pt!(i8);
                pt!(i16);
                pt!(i32);
                pt!(i64);
                pt!(i128);
                pt!(isize);
                let q = ((p as i128) << 64) | (p.rotate_left(29) as i128);
                let model = BigInt::from(q);
                for n in [126usize, 127, 128, 64, 63] {
                    ensure!(q.bit(n) == model_bit(&model, n), "value", "({}i128).bit({}) = {}", q, n, q.bit(n));
                }
                Ok(())
            });
            m.check("prim_bitops", &format!("{}/w{}", gen::size_class(la), which), if la > 0 { Some(h ^ p) } else { None }, &d, || match which {
                0 => {
                    let q = p as u8;
                    ensure!(BigInt::from(&x & q) == (&ma & BigInt::from(q)), "value", "u&u8 = {}", &x & q);
                    eq_u(&(&x | q), (&ma | BigInt::from(q)).magnitude(), "u|u8")?;
                    eq_u(&(q ^ &x), (&ma ^ BigInt::from(q)).magnitude(), "u8^u")
                }
                1 => {
                    ensure!(BigInt::from(&x & p) == (&ma & BigInt::from(p)), "value", "u&u64 = {}", &x & p);
                    eq_u(&(&x | p), (&ma | BigInt::from(p)).magnitude(), "u|u64")?;
                    eq_u(&(&x ^ p), (&ma ^ BigInt::from(p)).magnitude(), "u^u64")
                }
                2 => {
                    let q = ((p as u128) << 64) | (p.rotate_left(17) as u128);
                    ensure!(BigInt::from(&x & q) == (&ma & BigInt::from(q)), "value", "u&u128 = {}", &x & q);
                    let mut t = x.clone();
                    t |= q;
                    eq_u(&t, (&ma | BigInt::from(q)).magnitude(), "u|=u128")?;
                    let mut t = x.clone();
                    t ^= q;
                    eq_u(&t, (&ma ^ BigInt::from(q)).magnitude(), "u^=u128")
                }
                3 => {
                    let q = p as i8;
                    eq_i(&(&xi & q), &(&mia & BigInt::from(q)), "i&i8")?;
                    eq_i(&(&xi | q), &(&mia | BigInt::from(q)), "i|i8")?;
                    eq_i(&(q ^ &xi), &(&mia ^ BigInt::from(q)), "i8^i")
                }
                4 => {
                    let q = p as i64;
                    eq_i(&(&xi & q), &(&mia & BigInt::from(q)), "i&i64")?;
                    eq_i(&(q | &xi), &(&mia | BigInt::from(q)), "i64|i")?;
                    eq_i(&(&xi ^ q), &(&mia ^ BigInt::from(q)), "i^i64")
                }
                5 => {
                    let q = ((p as i128) << 63) ^ (p as i128);
                    eq_i(&(&xi & q), &(&mia & BigInt::from(q)), "i&i128")?;
                    let mut t = xi.clone();
                    t |= q;
                    eq_i(&t, &(&mia | BigInt::from(q)), "i|=i128")?;
                    let mut t = xi.clone();
                    t ^= q;
                    eq_i(&t, &(&mia ^ BigInt::from(q)), "i^=i128")
                }
                6 => {
                    // IBig & unsigned primitive -> primitive (always representable: result in 0..=q)
                    let q = p as u16;
                    ensure!(BigInt::from(&xi & q) == (&mia & BigInt::from(q)), "value", "i&u16 = {}", &xi & q);
                    eq_i(&(&xi | q), &(&mia | BigInt::from(q)), "i|u16")?;
                    eq_i(&(&xi ^ q), &(&mia ^ BigInt::from(q)), "i^u16")
                }
                7 => {
                    let q = p;
                    ensure!(BigInt::from(&xi & q) == (&mia & BigInt::from(q)), "value", "i&u64 = {}", &xi & q);
                    let mut t = xi.clone();
                    t &= q;
                    eq_i(&t, &(&mia & BigInt::from(q)), "i&=u64")
                }
                8 => {
                    let q = p as i32;
                    let mut t = xi.clone();
                    t &= q;
                    eq_i(&t, &(&mia & BigInt::from(q)), "i&=i32")?;
                    let mut t = xi.clone();
                    t ^= q;
                    eq_i(&t, &(&mia ^ BigInt::from(q)), "i^=i32")
                }
                _ => {
                    let q = p as u32;
                    let mut t = x.clone();
                    t &= q;
                    eq_u(&t, (&ma & BigInt::from(q)).magnitude(), "u&=u32")
                }
            });
        }
    }
}

fn selftest() -> Result<(), String> {
    // model: BigInt bit ops are two's complement, >> is floor
    if (BigInt::from(-5) >> 1usize) != BigInt::from(-3) {
        return Err("BigInt >> is not floor".into());
    }
    if (BigInt::from(-6) & BigInt::from(11)) != BigInt::from(10) {
        return Err("BigInt & not two's complement".into());
    }
    if !BigInt::from(5) != BigInt::from(-6) {
        return Err("BigInt ! not two's complement".into());
    }
    if !model_bit(&BigInt::from(-1), 1000) || model_bit(&BigInt::from(-2), 0) {
        return Err("model_bit".into());
    }
    Ok(())
}

fn main() {
    mon::main(Spec {
        prop: "C09",
        quick_cases: 1_500_000,
        thorough_cases: 60_000_000,
        rule: "Operands of exactly 0/1/2/3 limbs, all-ones / zero low limbs, powers of two and random long magnitudes x both signs x bit positions/shift counts 0,1,63,64,65,127..129,k*64, at/around/beyond the bit length; compared with num-bigint's two's-complement BigInt (floor right shift); mixed/primitive forms compared with 'convert both to IBig'. non-trivial = non-zero operands (shifts: n > 0).",
        assumptions: &["num-bigint BigInt bit operators implement infinite two's complement and floor right shift (self-tested on small values)", "IBig::bit_len is judged against its documented definition floor(log2|x|)+1"],
        required: &[("ubig_bitops", false), ("ibig_bitops", false), ("shift/", false), ("scan", false), ("ones/k64", false), ("bit_access", false)],
        case,
        selftest: Some(selftest),
        panic_finding: None,
    });
}
