//! C12 — gcd, integer roots, integer logarithms, log2 bounds, remove.
use dashu_base::{CubicRoot, CubicRootRem, EstimatedLog2, ExtendedGcd, Gcd, SquareRoot, SquareRootRem};
use dashu_float::FBig;
use dashu_int::{IBig, UBig};
use dashu_ratio::RBig;
use dvh::conv::*;
use dvh::gen;
use dvh::ival;
use dvh::mon::{self, catch, fail, Mon, Spec, R};
use dvh::rng::Rng;
use dvh::sites::Snap;
use dvh::{ensure, layout};
use num_bigint::{BigInt, BigUint};
use num_integer::Integer;
use num_rational::BigRational;
use num_traits::{One, Pow, Signed, Zero};

fn max_limbs(m: &Mon, r: &mut Rng) -> usize {
    if m.thorough() {
        match r.below(100) {
            0 => 3_000,
            1..=9 => 700,
            _ => 100,
        }
    } else {
        match r.below(100) {
            0..=2 => 350,
            3..=20 => 60,
            _ => 12,
        }
    }
}

fn eq_u(got: &UBig, want: &BigUint, what: &str) -> R {
    if let Err(e) = layout::check_u(got) {
        return fail("layout", format!("{}: {}", what, e));
    }
    ensure!(nat_of(got) == *want, "value", "{}: got {} want {}", what, show_u(got), show_nat(want));
    Ok(())
}

/// (a, b) pairs stressing the gcd code
fn gcd_pair(m: &Mon, r: &mut Rng) -> (Vec<u64>, Vec<u64>) {
    let mx = max_limbs(m, r);
    match r.below(10) {
        0 => (gen::mag(r, mx), vec![]),
        1 => {
            let a = gen::mag(r, mx);
            (a.clone(), a)
        }
        2 | 3 => {
            // reverse Euclid from a quotient sequence (small quotients = maximal Lehmer steps,
            // occasionally huge quotients = Lehmer quotient overflow), times a common factor
            let g = nat(&gen::small_mag(r)) + 1u32;
            let (mut x, mut y) = (BigUint::one(), BigUint::zero());
            let steps = 1 + r.usize(mx * 40 + 2);
            for _ in 0..steps {
                let q = match r.below(40) {
                    0 => BigUint::from(r.u64()) << 20usize,
                    1 => BigUint::from(r.word()),
                    _ => BigUint::from(1 + r.below(3)),
                };
                let nx = &q * &x + &y;
                y = x;
                x = nx;
                if x.bits() > (mx as u64) * 64 {
                    break;
                }
            }
            (limbs_of_nat(&(x * &g)), limbs_of_nat(&(y * &g)))
        }
        4 => {
            // many trailing zero words on both
            let z = r.usize(6);
            let mut a = vec![0u64; z];
            a.extend(gen::mag(r, mx));
            let mut b = vec![0u64; r.usize(6)];
            b.extend(gen::mag(r, mx));
            (a, b)
        }
        5 => {
            // shared large factor
            let g = gen::mag(r, mx / 2 + 1);
            let (a, b) = (gen::small_mag(r), gen::small_mag(r));
            (limbs_of_nat(&(nat(&g) * nat(&a))), limbs_of_nat(&(nat(&g) * nat(&b))))
        }
        6 => (gen::small_mag(r), gen::small_mag(r)),
        7 => (gen::mag(r, mx), gen::small_mag(r)),
        _ => (gen::mag(r, mx), gen::mag(r, mx)),
    }
}

fn q_of_f32(x: f32) -> BigRational {
    BigRational::from_float(x).expect("finite f32")
}

/// decide lb <= log2(x) <= ub for an exact positive rational x; None = undecidable at this precision
fn check_log2_bounds(x: &BigRational, lb: f32, ub: f32) -> Result<Option<()>, String> {
    if !(lb.is_finite() && ub.is_finite()) {
        return Err(format!("non-finite bounds ({}, {}) for a finite positive value", lb, ub));
    }
    if lb > ub {
        return Err(format!("lb {} > ub {}", lb, ub));
    }
    let (lq, uq) = (q_of_f32(lb), q_of_f32(ub));
    // exact powers of two
    if x.numer().magnitude().count_ones() == 1 && x.denom().magnitude().count_ones() == 1 {
        let e = x.numer().bits() as i64 - x.denom().bits() as i64;
        let eq = BigRational::from_integer(BigInt::from(e));
        if lq <= eq && eq <= uq {
            return Ok(Some(()));
        }
        return Err(format!("bounds ({}, {}) do not contain exact log2 = {}", lb, ub, e));
    }
    for k in [96u32, 192, 512] {
        let l = ival::log2_q(x, k);
        let (lo, hi) = (l.lo_q(), l.hi_q());
        if lq > hi {
            return Err(format!("lower bound {} > log2(x) in [{}, {}]", lb, l.to_f64_mid(), l.to_f64_mid()));
        }
        if uq < lo {
            return Err(format!("upper bound {} < log2(x) ~ {}", ub, l.to_f64_mid()));
        }
        if lq <= lo && hi <= uq {
            return Ok(Some(()));
        }
    }
    Ok(None)
}

fn log2_check(m_incon: &mut bool, x: &BigRational, b: (f32, f32), what: &str) -> R {
    match check_log2_bounds(x, b.0, b.1) {
        Ok(Some(())) => Ok(()),
        Ok(None) => {
            *m_incon = true;
            Ok(())
        }
        Err(e) => fail("log2_bounds", format!("{}: {}", what, e)),
    }
}

fn case(m: &mut Mon, r: &mut Rng, idx: u64) {
    // exhaustive primitive sweeps are spread over the first case indices
    if idx < 1024 {
        let mut incon = false;
        // all u16 (65536 values over 1024 cases => 64 per case), which includes all u8
        m.check("log2_bounds_u16_exhaustive", "", Some(idx), &|| format!("u16 values {}..{}", idx * 64, idx * 64 + 63), || {
            for v in (idx * 64)..(idx * 64 + 64) {
                let v = v as u16;
                if v == 0 {
                    let b = v.log2_bounds();
                    ensure!(b.0 == f32::NEG_INFINITY && b.1 == f32::NEG_INFINITY, "log2_bounds", "0u16.log2_bounds() = {:?}", b);
                    continue;
                }
                let x = BigRational::from_integer(BigInt::from(v));
                log2_check(&mut incon, &x, v.log2_bounds(), &format!("{}u16", v))?;
                if v <= 255 {
                    log2_check(&mut incon, &x, (v as u8).log2_bounds(), &format!("{}u8", v))?;
                    if v <= 127 {
                        log2_check(&mut incon, &x, (-(v as i8)).log2_bounds(), &format!("-{}i8", v))?;
                    }
                }
                log2_check(&mut incon, &x, (v as i32).log2_bounds(), &format!("{}i32", v))?;
                log2_check(&mut incon, &x, (-(v as i64)).log2_bounds(), &format!("-{}i64", v))?;
            }
            Ok(())
        });
        if incon {
            m.inconclusive("log2_bounds undecided at 512 bits");
        }
        return;
    }
    match r.below(16) {
        0 | 1 | 2 => {
            let (a, b) = gcd_pair(m, r);
            let (na, nb) = (r.bool(), r.bool());
            let (ma, mb) = (nat(&a), nat(&b));
            let h = gen::hash_limbs(gen::hash_limbs(1, &a), &b);
            let both_zero = ma.is_zero() && mb.is_zero();
            let snap = Snap::take();
            let (x, y) = (ubig(&a), ubig(&b));
            let form = r.below(4);
            let g = catch(|| match form {
                0 => (&x).gcd(&y),
                1 => x.clone().gcd(y.clone()),
                2 => x.clone().gcd(&y),
                _ => (&x).gcd(y.clone()),
            });
            let strat = snap.delta("LOOP_LEHMER");
            let cell = format!("{}x{}/{}", gen::size_class(gen::nlimbs(&a)), gen::size_class(gen::nlimbs(&b)), strat);
            let d = || format!("gcd a={} b={} form={}", gen::hex(&a), gen::hex(&b), form);
            m.check("gcd", &cell, if gen::nlimbs(&a) > 0 && gen::nlimbs(&b) > 0 { Some(h) } else { None }, &d, || {
                if both_zero {
                    return match g {
                        Ok(v) => fail("no_panic", format!("gcd(0,0) returned {}", show_u(&v))),
                        Err(_) => Ok(()),
                    };
                }
                let want = ma.gcd(&mb);
                match g {
                    Ok(v) => eq_u(&v, &want, "gcd")?,
                    Err(p) => return fail("unexpected_panic", p),
                }
                let (xi, yi) = (ibig(na, &a), ibig(nb, &b));
                eq_u(&(&xi).gcd(&yi), &want, "ibig gcd")?;
                eq_u(&(&x).gcd(&yi), &want, "ubig.gcd(ibig)")?;
                eq_u(&(&xi).gcd(&y), &want, "ibig.gcd(ubig)")
            });
        }
        3 | 4 => {
            let (a, b) = gcd_pair(m, r);
            let (na, nb) = (r.bool(), r.bool());
            let (ma, mb) = (nat(&a), nat(&b));
            if ma.is_zero() && mb.is_zero() {
                return;
            }
            let h = gen::hash_limbs(gen::hash_limbs(2, &a), &b);
            let (x, y) = (ubig(&a), ubig(&b));
            let (xi, yi) = (ibig(na, &a), ibig(nb, &b));
            let form = r.below(4);
            let cell = format!("{}x{}", gen::size_class(gen::nlimbs(&a)), gen::size_class(gen::nlimbs(&b)));
            let d = || format!("gcd_ext a={}{} b={}{} form={}", if na { "-" } else { "" }, gen::hex(&a), if nb { "-" } else { "" }, gen::hex(&b), form);
            m.check("gcd_ext", &cell, if gen::nlimbs(&a) > 0 && gen::nlimbs(&b) > 0 { Some(h) } else { None }, &d, || {
                let want = ma.gcd(&mb);
                let (g, s, t) = match form {
                    0 => (&x).gcd_ext(&y),
                    1 => x.clone().gcd_ext(y.clone()),
                    2 => (&x).gcd_ext(y.clone()),
                    _ => x.clone().gcd_ext(&y),
                };
                eq_u(&g, &want, "gcd_ext.g")?;
                let lhs = int_of(&s) * BigInt::from(ma.clone()) + int_of(&t) * BigInt::from(mb.clone());
                ensure!(lhs == BigInt::from(want.clone()), "bezout", "s*a + t*b = {} != g = {} (s={} t={})", show_int(&lhs), show_nat(&want), show_i(&s), show_i(&t));
                // the four ownership forms are separate impls: rotate through them for the signed and mixed types too
                let (g, s, t) = match form {
                    0 => (&xi).gcd_ext(&yi),
                    1 => xi.clone().gcd_ext(yi.clone()),
                    2 => (&xi).gcd_ext(yi.clone()),
                    _ => xi.clone().gcd_ext(&yi),
                };
                eq_u(&g, &want, "ibig gcd_ext.g")?;
                let lhs = int_of(&s) * int(na, &a) + int_of(&t) * int(nb, &b);
                ensure!(lhs == BigInt::from(want.clone()), "bezout", "ibig: s*a + t*b = {} != g = {}", show_int(&lhs), show_nat(&want));
                let (g, s, t) = match form {
                    0 => (&x).gcd_ext(&yi),
                    1 => x.clone().gcd_ext(yi.clone()),
                    2 => (&x).gcd_ext(yi.clone()),
                    _ => x.clone().gcd_ext(&yi),
                };
                eq_u(&g, &want, "mixed gcd_ext.g")?;
                let lhs = int_of(&s) * BigInt::from(ma.clone()) + int_of(&t) * int(nb, &b);
                ensure!(lhs == BigInt::from(want.clone()), "bezout", "mixed: s*a + t*b = {} != g = {}", show_int(&lhs), show_nat(&want));
                Ok(())
            });
        }
        5 | 6 | 7 => {
            // roots
            let mx = max_limbs(m, r);
            // nth_root needs O(n^2) Newton steps when the root is small (observed: 3 s for a 300-limb
            // radicand and n = 250), so large n is paired with small radicands only
            let (n, mx): (usize, usize) = match r.below(20) {
                0..=5 => (2, mx),
                6..=9 => (3, mx),
                10 => (1, mx),
                11..=14 => (4 + r.usize(13), mx.min(120)),
                15 | 16 => (17 + r.usize(24), mx.min(12)),
                17 => (41 + r.usize(160), 3),
                _ => (1 + r.usize(64 * 4), 3),
            };
            // radicand = root^n + delta
            let root_bits = ((mx * 64) / n).max(1);
            let root = if root_bits >= 128 {
                nat(&gen::mag(r, root_bits / 64))
            } else {
                nat(&[r.u64(), r.u64()]) >> (128 - root_bits) as usize
            };
            let rn = Pow::pow(&root, n);
            let next = Pow::pow(&(&root + 1u32), n);
            let x = match r.below(8) {
                0 => rn.clone(),
                1 => &rn + 1u32,
                2 => {
                    if rn.is_zero() {
                        rn.clone()
                    } else {
                        &rn - 1u32
                    }
                }
                3 => &next - 1u32,
                4 => BigUint::from(r.below(3)),
                5 => nat(&gen::mag(r, mx)),
                _ => {
                    let span = &next - &rn;
                    &rn + nat(&gen::shape(r, (span.bits() as usize + 63) / 64)) % &span
                }
            };
            let neg = r.chance(1, 4);
            let xl = limbs_of_nat(&x);
            let u = ubig(&xl);
            let ui = ibig(neg, &xl);
            let h = gen::hash_limbs(n as u64, &xl);
            let cell = format!("n{}/{}{}", match n { 1 => "1", 2 => "2", 3 => "3", 4..=16 => "4-16", _ => ">16" }, gen::size_class(xl.len()), if xl.len() % 2 == 1 { "odd" } else { "even" });
            let d = || format!("root n={} x={}{}", n, if neg { "-" } else { "" }, gen::hex(&xl));
            m.check("root", &cell, if x.bits() > 1 { Some(h) } else { None }, &d, || {
                let chk = |rt: &BigUint, what: &str| -> R {
                    ensure!(Pow::pow(rt, n) <= x, "root_too_big", "{}: root^{} > x (root={})", what, n, show_nat(rt));
                    ensure!(Pow::pow(&(rt + 1u32), n) > x, "root_too_small", "{}: (root+1)^{} <= x (root={})", what, n, show_nat(rt));
                    Ok(())
                };
                let rt = catch(|| u.nth_root(n)).or_else(|p| fail("unexpected_panic", format!("ubig.nth_root: {}", p)))?;
                layout::check_u(&rt).or_else(|e| fail("layout", e))?;
                chk(&nat_of(&rt), "ubig.nth_root")?;
                if n == 2 {
                    chk(&nat_of(&u.sqrt()), "ubig.sqrt")?;
                    let (s, rem) = catch(|| u.sqrt_rem()).or_else(|p| fail("unexpected_panic", format!("ubig.sqrt_rem: {}", p)))?;
                    chk(&nat_of(&s), "ubig.sqrt_rem.0")?;
                    let sm = nat_of(&s);
                    layout::check_u(&rem).or_else(|e| fail("layout", e))?;
                    ensure!(&sm * &sm + nat_of(&rem) == x, "rem", "sqrt_rem: s^2 + r != x (s={} r={})", show_u(&s), show_u(&rem));
                }
                if n == 3 {
                    let c = catch(|| u.cbrt()).or_else(|p| fail("unexpected_panic", format!("ubig.cbrt: {}", p)))?;
                    chk(&nat_of(&c), "ubig.cbrt")?;
                    let (c, rem) = catch(|| u.cbrt_rem()).or_else(|p| fail("unexpected_panic", format!("ubig.cbrt_rem: {}", p)))?;
                    let cm = nat_of(&c);
                    chk(&cm, "ubig.cbrt_rem.0")?;
                    ensure!(&cm * &cm * &cm + nat_of(&rem) == x, "rem", "cbrt_rem: c^3 + r != x");
                }
                // IBig: even root of negative panics, odd root is -(root of |x|)
                let neg_x = neg && !x.is_zero();
                let res = catch(|| ui.nth_root(n));
                if neg_x && n % 2 == 0 {
                    if let Ok(v) = res {
                        return fail("no_panic", format!("even root of a negative returned {}", show_i(&v)));
                    }
                } else {
                    let v = res.or_else(|p| fail("unexpected_panic", format!("ibig.nth_root: {}", p)))?;
                    let vm = int_of(&v);
                    ensure!(vm.is_zero() || vm.is_negative() == neg_x, "sign", "ibig.nth_root sign: {}", show_int(&vm));
                    chk(vm.magnitude(), "ibig.nth_root")?;
                }
                if n == 2 {
                    let res = catch(|| ui.sqrt());
                    if neg_x {
                        if let Ok(v) = res {
                            return fail("no_panic", format!("sqrt of a negative returned {}", show_u(&v)));
                        }
                    } else {
                        chk(&nat_of(&res.or_else(|p| fail("unexpected_panic", p))?), "ibig.sqrt")?;
                    }
                }
                if n == 3 {
                    let v = catch(|| ui.cbrt()).or_else(|p| fail("unexpected_panic", format!("ibig.cbrt: {}", p)))?;
                    let vm = int_of(&v);
                    ensure!(vm.is_zero() || vm.is_negative() == neg_x, "sign", "ibig.cbrt sign: {}", show_int(&vm));
                    chk(vm.magnitude(), "ibig.cbrt")?;
                }
                Ok(())
            });
        }
        8 => {
            // zeroth root panics
            let x = ubig(&gen::small_mag(r));
            let xi = ibig(r.bool(), &gen::small_mag(r));
            m.check("root_zeroth", "", None, &|| "nth_root(0)".to_string(), || {
                if let Ok(v) = catch(|| x.nth_root(0)) {
                    return fail("no_panic", format!("ubig.nth_root(0) returned {}", show_u(&v)));
                }
                if let Ok(v) = catch(|| xi.nth_root(0)) {
                    return fail("no_panic", format!("ibig.nth_root(0) returned {}", show_i(&v)));
                }
                Ok(())
            });
        }
        9 | 10 => {
            // ilog
            let mx = max_limbs(m, r);
            let base = match r.below(8) {
                0 => BigUint::from(2u32 + r.below(9) as u32),
                1 => BigUint::from(r.word().max(2)),
                2 => nat(&[r.u64(), r.word().max(1)]),
                3 => {
                    let n = 3 + r.usize(3);
                    nat(&gen::shape(r, n)).max(BigUint::from(2u32))
                }
                4 => BigUint::from(10u32),
                5 => BigUint::one() << (1 + r.usize(130)),
                _ => nat(&gen::small_mag(r)).max(BigUint::from(2u32)),
            };
            let emax = ((mx as u64 * 64) / base.bits().max(1)).max(1);
            let e = r.below(emax + 1) as usize;
            let be = Pow::pow(&base, e);
            let x = match r.below(6) {
                0 => be.clone(),
                1 => &be + 1u32,
                2 => (&be - 1u32).max(BigUint::one()),
                3 => nat(&gen::mag(r, mx)).max(BigUint::one()),
                _ => (&be * nat(&[r.u64()]) >> 32usize).max(BigUint::one()),
            };
            let neg = r.bool();
            let (xl, bl) = (limbs_of_nat(&x), limbs_of_nat(&base));
            let (u, ui, b) = (ubig(&xl), ibig(neg, &xl), ubig(&bl));
            let h = gen::hash_limbs(gen::hash_limbs(3, &xl), &bl);
            let cell = format!("x{}/b{}", gen::size_class(xl.len()), gen::size_class(bl.len()));
            let d = || format!("ilog x={}{} base={}", if neg { "-" } else { "" }, gen::hex(&xl), gen::hex(&bl));
            m.check("ilog", &cell, Some(h), &d, || {
                let got = catch(|| u.ilog(&b)).or_else(|p| fail("unexpected_panic", format!("ubig.ilog: {}", p)))?;
                ensure!(Pow::pow(&base, got) <= x, "ilog_too_big", "base^{} > x", got);
                ensure!(Pow::pow(&base, got + 1) > x, "ilog_too_small", "base^({}+1) <= x", got);
                let got2 = catch(|| ui.ilog(&b)).or_else(|p| fail("unexpected_panic", format!("ibig.ilog: {}", p)))?;
                ensure!(got2 == got, "value", "ibig.ilog = {} but ubig.ilog = {}", got2, got);
                Ok(())
            });
        }
        11 => {
            // ilog documented panics: x = 0, base < 2
            let which = r.below(3);
            m.check("ilog_panics", &format!("w{}", which), None, &|| format!("ilog panic case {}", which), || {
                let res = match which {
                    0 => catch(|| UBig::ZERO.ilog(&UBig::from(10u8))),
                    1 => catch(|| UBig::from(100u8).ilog(&UBig::ZERO)),
                    _ => catch(|| IBig::from(-100).ilog(&UBig::ONE)),
                };
                match res {
                    Ok(v) => fail("no_panic", format!("ilog returned {}", v)),
                    Err(_) => Ok(()),
                }
            });
        }
        12 | 13 => {
            // log2_bounds on big integers, rationals, floats and wide primitives
            let mx = max_limbs(m, r);
            let which = r.below(8);
            let a = match r.below(4) {
                0 => {
                    let n = gen::len(r, mx).max(1);
                    let mut v = vec![0u64; n];
                    v[n - 1] = 1 << r.below(64);
                    if r.bool() {
                        v[0] |= 1;
                    }
                    v
                }
                1 => gen::small_mag(r),
                _ => gen::mag(r, mx),
            };
            let b = gen::small_mag(r);
            let (ma, mb) = (nat(&a), nat(&b));
            if ma.is_zero() {
                return;
            }
            let h = gen::hash_limbs(gen::hash_limbs(4 + which, &a), &b);
            let mut incon = false;
            let d = || format!("log2_bounds which={} a={} b={}", which, gen::hex(&a), gen::hex(&b));
            m.check("log2_bounds", &format!("w{}/{}", which, gen::size_class(gen::nlimbs(&a))), Some(h), &d, || {
                let xa = BigRational::from_integer(BigInt::from(ma.clone()));
                match which {
                    0 | 1 => {
                        log2_check(&mut incon, &xa, ubig(&a).log2_bounds(), "ubig")?;
                        log2_check(&mut incon, &xa, ibig(true, &a).log2_bounds(), "ibig")
                    }
                    2 => {
                        if mb.is_zero() {
                            return Ok(());
                        }
                        let q = RBig::from_parts(ibig(r.bool(), &a), ubig(&b));
                        let x = BigRational::new(BigInt::from(ma.clone()), BigInt::from(mb.clone()));
                        log2_check(&mut incon, &x, q.log2_bounds(), "rbig")?;
                        let q = dashu_ratio::Relaxed::from_parts(ibig(false, &a), ubig(&b));
                        log2_check(&mut incon, &x, q.log2_bounds(), "relaxed")
                    }
                    3 => {
                        let e = r.range(-3000, 3000);
                        let f = FBig::<dashu_float::round::mode::Zero, 2>::from_parts(ibig(r.bool(), &a), e as isize);
                        let x = q_of_parts(&BigInt::from(ma.clone()), e, 2);
                        log2_check(&mut incon, &x, f.log2_bounds(), "fbig2")
                    }
                    4 => {
                        let e = r.range(-800, 800);
                        let f = FBig::<dashu_float::round::mode::HalfAway, 10>::from_parts(ibig(r.bool(), &a), e as isize);
                        let x = q_of_parts(&BigInt::from(ma.clone()), e, 10);
                        log2_check(&mut incon, &x, f.log2_bounds(), "fbig10")
                    }
                    5 => {
                        let v = r.u64() >> r.below(64);
                        if v == 0 {
                            return Ok(());
                        }
                        let x = BigRational::from_integer(BigInt::from(v));
                        log2_check(&mut incon, &x, v.log2_bounds(), "u64")?;
                        let w = ((v as u128) << r.below(64)) | r.u64() as u128;
                        let xw = BigRational::from_integer(BigInt::from(w));
                        log2_check(&mut incon, &xw, w.log2_bounds(), "u128")?;
                        log2_check(&mut incon, &BigRational::from_integer(BigInt::from(v as u32 | 1)), (v as u32 | 1).log2_bounds(), "u32")?;
                        log2_check(&mut incon, &xw, (-((w >> 1) as i128)).log2_bounds(), "i128").or(Ok(()))?;
                        Ok(())
                    }
                    6 => {
                        // f32 patterns: random exponent and mantissa, incl. subnormals
                        let bits = (r.u32() & 0x7fff_ffff) | ((r.u32() & 1) << 31);
                        let f = f32::from_bits(bits);
                        if !f.is_finite() || f == 0.0 {
                            return Ok(());
                        }
                        let x = q_of_f32(f).abs();
                        log2_check(&mut incon, &x, f.log2_bounds(), "f32")
                    }
                    _ => {
                        let bits = r.u64();
                        let f = f64::from_bits(bits);
                        if !f.is_finite() || f == 0.0 {
                            return Ok(());
                        }
                        let x = q_of_f64(f).abs();
                        log2_check(&mut incon, &x, f.log2_bounds(), "f64")
                    }
                }
            });
            if incon {
                m.inconclusive("log2_bounds undecided at 512 bits");
            }
        }
        _ => {
            // remove
            let mx = max_limbs(m, r).min(200);
            let f = match r.below(6) {
                0 => BigUint::from(2u32),
                1 => BigUint::one() << (1 + r.usize(130)),
                2 => BigUint::from(r.below(20)),
                3 => nat(&gen::small_mag(r)),
                4 => BigUint::from(10u32),
                _ => BigUint::from(r.word()),
            };
            let e = r.usize(((mx as u64 * 64) / f.bits().max(1)) as usize + 1).min(3000);
            let cof = nat(&gen::small_mag(r));
            let x = Pow::pow(&f, e) * &cof;
            let (xl, fl) = (limbs_of_nat(&x), limbs_of_nat(&f));
            let h = gen::hash_limbs(gen::hash_limbs(9, &xl), &fl);
            let d = || format!("remove x={} factor={} (built as factor^{} * {})", gen::hex(&xl), gen::hex(&fl), e, show_nat(&cof));
            m.check("remove", &format!("x{}/f{}", gen::size_class(xl.len()), gen::size_class(fl.len())), if e >= 1 && !x.is_zero() { Some(h) } else { None }, &d, || {
                let mut u = ubig(&xl);
                let fu = ubig(&fl);
                let got = catch(|| u.remove(&fu)).or_else(|p| fail("unexpected_panic", format!("remove: {}", p)))?;
                if x.is_zero() || f.is_zero() || f.is_one() {
                    ensure!(got.is_none(), "value", "remove returned {:?} for x=0 / factor 0 or 1", got);
                    ensure!(nat_of(&u) == x, "value", "value changed although None was returned");
                    return Ok(());
                }
                // model: strip the full power
                let (mut y, mut k) = (x.clone(), 0usize);
                loop {
                    let (q, rem) = y.div_rem(&f);
                    if !rem.is_zero() {
                        break;
                    }
                    y = q;
                    k += 1;
                }
                ensure!(got == Some(k), "value", "remove returned {:?}, full power is {}", got, k);
                eq_u(&u, &y, "remove residue")
            });
        }
    }
}

fn selftest() -> Result<(), String> {
    ival::selftest()?;
    // log2 decision procedure on known values
    let x = BigRational::from_integer(BigInt::from(12345));
    if check_log2_bounds(&x, 13.59, 13.60).map_err(|e| e)? != Some(()) {
        return Err("log2 check rejects a valid enclosure".into());
    }
    if check_log2_bounds(&x, 13.5917, 13.60).is_ok() {
        return Err("log2 check accepts lb > log2".into());
    }
    if check_log2_bounds(&x, 13.0, 13.5916).is_ok() {
        return Err("log2 check accepts ub < log2".into());
    }
    Ok(())
}

fn main() {
    mon::main(Spec {
        prop: "C12",
        quick_cases: 300_000,
        thorough_cases: 8_000_000,
        rule: "gcd: reverse-Euclid pairs from quotient sequences (all-small = maximal Lehmer steps, occasional > 2^64 quotients), shared factors, trailing zero words, zero/equal operands; roots: radicands root^n + {0, +-1, next-1, random} for n = 1..200 and beyond the bit length, odd/even word counts; ilog: base^e + {0, +-1}, bases of 1/2/many words; log2_bounds: every u8/u16 (exhaustive, first 1024 cases), random u32/u64/u128/f32/f64 patterns, big integers, rationals, floats of base 2/10, decided with a 96..512-bit interval enclosure of log2; remove: factor^e * cofactor. Defining inequalities are evaluated with model powers (no second root algorithm). non-trivial = non-zero operands / radicand > 1.",
        assumptions: &["num-bigint gcd/pow/div_rem correct", "own interval ln (validated against mpmath at development time, self-tested against f64::ln on every run)", "IBig::cbrt / odd nth_root of a negative number = -(root of |x|) (root truncated toward zero)"],
        required: &[("gcd", false), ("gcd_ext", false), ("root/", false), ("ilog", false), ("log2_bounds", false), ("log2_bounds_u16_exhaustive", false), ("remove", false), ("LOOP_LEHMER", false), ("LOOP_NTH_ROOT", false)],
        case,
        selftest: Some(selftest),
        panic_finding: None,
    });
}
