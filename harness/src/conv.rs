//! Glue between 64-bit limb vectors, dashu types and the num-bigint model.
//! dashu values are read through `as_words()` / `as_sign_words()` only.
use dashu_base::Sign;
use dashu_int::{IBig, UBig, Word};
use num_bigint::{BigInt, BigUint, Sign as NSign};

pub const WORD_BITS: usize = Word::BITS as usize;

/// limbs -> dashu words (independent of the configured word size)
pub fn words_of(limbs: &[u64]) -> Vec<Word> {
    let mut out = Vec::with_capacity(limbs.len() * (64 / WORD_BITS));
    for &l in limbs {
        let mut i = 0;
        while i < 64 {
            out.push((l >> i) as Word);
            i += WORD_BITS;
        }
    }
    out
}

pub fn ubig(limbs: &[u64]) -> UBig {
    UBig::from_words(&words_of(limbs))
}

pub fn ibig(neg: bool, limbs: &[u64]) -> IBig {
    IBig::from_parts(if neg { Sign::Negative } else { Sign::Positive }, ubig(limbs))
}

pub fn nat(limbs: &[u64]) -> BigUint {
    let mut bytes = Vec::with_capacity(limbs.len() * 8);
    for l in limbs {
        bytes.extend_from_slice(&l.to_le_bytes());
    }
    BigUint::from_bytes_le(&bytes)
}

pub fn int(neg: bool, limbs: &[u64]) -> BigInt {
    let n = nat(limbs);
    if neg {
        -BigInt::from(n)
    } else {
        BigInt::from(n)
    }
}

fn words_to_nat(words: &[Word]) -> BigUint {
    let mut bytes = Vec::with_capacity(words.len() * (WORD_BITS / 8));
    for w in words {
        bytes.extend_from_slice(&w.to_le_bytes());
    }
    BigUint::from_bytes_le(&bytes)
}

/// model value of a dashu UBig
pub fn nat_of(u: &UBig) -> BigUint {
    words_to_nat(u.as_words())
}

/// model value of a dashu IBig
pub fn int_of(i: &IBig) -> BigInt {
    let (s, w) = i.as_sign_words();
    let n = words_to_nat(w);
    match s {
        Sign::Positive => BigInt::from(n),
        Sign::Negative => -BigInt::from(n),
    }
}

/// model -> dashu (through little-endian bytes of the magnitude -> words)
pub fn ubig_of_nat(n: &BigUint) -> UBig {
    let d = n.to_u64_digits();
    ubig(&d)
}

pub fn ibig_of_int(n: &BigInt) -> IBig {
    let (s, m) = n.clone().into_parts();
    ibig(s == NSign::Minus, &m.to_u64_digits())
}

pub fn limbs_of_nat(n: &BigUint) -> Vec<u64> {
    n.to_u64_digits()
}

pub fn show_nat(n: &BigUint) -> String {
    crate::gen::hex(&n.to_u64_digits())
}

pub fn show_int(n: &BigInt) -> String {
    let (s, m) = n.clone().into_parts();
    format!("{}{}", if s == NSign::Minus { "-" } else { "" }, crate::gen::hex(&m.to_u64_digits()))
}

pub fn show_u(u: &UBig) -> String {
    show_nat(&nat_of(u))
}

pub fn show_i(i: &IBig) -> String {
    show_int(&int_of(i))
}

// ---------- exact rationals ----------
use num_rational::BigRational;

pub fn pow_q(base: u32, exp: i64) -> BigRational {
    let b = BigInt::from(base);
    if exp >= 0 {
        BigRational::from_integer(num_traits::Pow::pow(&b, exp as u64))
    } else {
        BigRational::new(BigInt::from(1), num_traits::Pow::pow(&b, (-exp) as u64))
    }
}

/// sig * base^exp as an exact rational
pub fn q_of_parts(sig: &BigInt, exp: i64, base: u32) -> BigRational {
    BigRational::from_integer(sig.clone()) * pow_q(base, exp)
}

/// exact value of a finite dashu float representation
pub fn q_of_repr<const B: dashu_int::Word>(r: &dashu_float::Repr<B>) -> BigRational {
    q_of_parts(&int_of(r.significand()), r.exponent() as i64, B as u32)
}

pub fn q_of_rbig(r: &dashu_ratio::RBig) -> BigRational {
    BigRational::new(int_of(r.numerator()), BigInt::from(nat_of(r.denominator())))
}

pub fn q_of_relaxed(r: &dashu_ratio::Relaxed) -> BigRational {
    BigRational::new(int_of(r.numerator()), BigInt::from(nat_of(r.denominator())))
}

pub fn q_of_f64(x: f64) -> BigRational {
    BigRational::from_float(x).expect("finite")
}

pub fn show_q(q: &BigRational) -> String {
    format!("{}/{}", show_int(q.numer()), show_int(q.denom()))
}
