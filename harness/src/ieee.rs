//! Reference conversion of exact rationals to IEEE-754 binary32/binary64 under any of the six modes
//! (subnormals, overflow to infinity), independent of dashu.
use crate::conv::pow_q;
use crate::ival::floor_log;
use crate::qref::{round_units, Mode};
use num_bigint::BigInt;
use num_rational::BigRational;
use num_traits::{Signed, ToPrimitive, Zero};
use std::cmp::Ordering;

#[derive(Clone, Copy, Debug, PartialEq)]
pub struct Fmt {
    pub mant_bits: usize, // 24 / 53
    pub emin: i64,        // exponent of the least subnormal unit: -149 / -1074
    pub emax: i64,        // 2^emax is the first value that overflows: 128 / 1024
}
pub const F32: Fmt = Fmt { mant_bits: 24, emin: -149, emax: 128 };
pub const F64: Fmt = Fmt { mant_bits: 53, emin: -1074, emax: 1024 };

#[derive(Clone, Debug, PartialEq)]
pub enum IeeeVal {
    /// n * 2^e exactly (|n| < 2^mant_bits, or n == +-2^mant_bits after a carry), sign kept for zero results
    Finite { neg: bool, n: BigInt, e: i64 },
    Inf { neg: bool },
}

/// correctly rounded value of x in the format under `mode`, and the sign of (result - x)
pub fn round_to(x: &BigRational, f: Fmt, mode: Mode) -> (IeeeVal, Ordering) {
    if x.is_zero() {
        return (IeeeVal::Finite { neg: false, n: BigInt::zero(), e: f.emin }, Ordering::Equal);
    }
    let neg = x.is_negative();
    let e = (floor_log(&x.abs(), 2) - f.mant_bits as i64 + 1).max(f.emin);
    let t = x / pow_q(2, e);
    let n = round_units(&t, mode);
    let val = BigRational::from_integer(n.clone()) * pow_q(2, e);
    let limit = pow_q(2, f.emax);
    if val.abs() >= limit {
        // overflow: IEEE rounds to infinity for nearest modes and modes pointing away; the largest finite otherwise
        let to_inf = match mode {
            Mode::HalfEven | Mode::HalfAway | Mode::Away => true,
            Mode::Zero => false,
            Mode::Up => !neg,
            Mode::Down => neg,
        };
        if to_inf {
            return (IeeeVal::Inf { neg }, if neg { Ordering::Less } else { Ordering::Greater });
        }
        let maxn: BigInt = (BigInt::from(1) << f.mant_bits) - 1i32;
        let me = f.emax - f.mant_bits as i64;
        let mv = BigRational::from_integer(if neg { -maxn.clone() } else { maxn.clone() }) * pow_q(2, me);
        let ord = mv.cmp(x);
        return (IeeeVal::Finite { neg, n: if neg { -maxn } else { maxn }, e: me }, ord);
    }
    let ord = val.cmp(x);
    (IeeeVal::Finite { neg, n, e }, ord)
}

impl IeeeVal {
    pub fn to_f64(&self) -> f64 {
        match self {
            IeeeVal::Inf { neg } => {
                if *neg {
                    f64::NEG_INFINITY
                } else {
                    f64::INFINITY
                }
            }
            IeeeVal::Finite { neg, n, e } => {
                let mag = n.magnitude().to_u64().expect("mantissa fits u64");
                if mag == 0 {
                    return if *neg { -0.0 } else { 0.0 };
                }
                // compose the bits directly: value = mag * 2^e is representable by construction
                let bl = 64 - mag.leading_zeros() as i64;
                let top = e + bl - 1; // exponent of the leading bit
                let bits = if top >= -1022 {
                    let mant = if bl <= 53 { mag << (53 - bl) } else { mag >> (bl - 53) };
                    (((top + 1023) as u64) << 52) | (mant & ((1u64 << 52) - 1))
                } else {
                    mag << (e + 1074)
                };
                let v = f64::from_bits(bits);
                if *neg {
                    -v
                } else {
                    v
                }
            }
        }
    }

    pub fn to_f32(&self) -> f32 {
        // every binary32 value is a binary64 value; the cast is exact
        self.to_f64() as f32
    }
}

pub fn q_of_f64(v: f64) -> Option<BigRational> {
    if v.is_finite() {
        BigRational::from_float(v)
    } else {
        None
    }
}

pub fn selftest() -> Result<(), String> {
    let mut r = crate::rng::Rng::new(0x1eee);
    for _ in 0..3000 {
        // hardware: integer -> float casts round to nearest even
        let n = r.u64() >> r.below(64);
        let q = BigRational::from_integer(BigInt::from(n));
        let (v, ord) = round_to(&q, F64, Mode::HalfEven);
        if v.to_f64() != n as f64 {
            return Err(format!("round_to({}, f64) = {} but `as f64` = {}", n, v.to_f64(), n as f64));
        }
        let back = BigRational::from_float(n as f64).unwrap();
        if back.cmp(&q) != ord {
            return Err("error sign".into());
        }
        let (v, _) = round_to(&q, F32, Mode::HalfEven);
        if v.to_f32() != n as f32 {
            return Err(format!("round_to({}, f32) = {} but `as f32` = {}", n, v.to_f32(), n as f32));
        }
        // hardware division incl. subnormal results
        let a = (r.u64() >> 12) as f64;
        let b = f64::from_bits((r.u64() >> 2) | 1);
        if a != 0.0 && b.is_finite() && b != 0.0 {
            let q = BigRational::from_float(a).unwrap() / BigRational::from_float(b).unwrap();
            let (v, _) = round_to(&q, F64, Mode::HalfEven);
            if v.to_f64() != a / b {
                return Err(format!("round_to({} / {}) = {} but hardware gives {}", a, b, v.to_f64(), a / b));
            }
        }
        // f64 -> f32 narrowing (covers f32 subnormals and overflow)
        let d = f64::from_bits(r.u64());
        if d.is_finite() {
            let (v, _) = round_to(&BigRational::from_float(d).unwrap(), F32, Mode::HalfEven);
            if v.to_f32() != d as f32 && !(d as f32 == 0.0 && v.to_f32() == 0.0) {
                return Err(format!("round_to({:e}, f32) = {:e} but `as f32` = {:e}", d, v.to_f32(), d as f32));
            }
        }
    }
    Ok(())
}
