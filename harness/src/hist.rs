//! Operation histories over a small pool of live integers (C17, part of C05/C15):
//! every step is mirrored on a num-bigint shadow pool; after every step the touched values are
//! compared with the shadow, their storage layout is checked (hook 1) and no two live heap
//! values may share a buffer.
use crate::conv::*;
use crate::gen;
use crate::layout;
use crate::rng::Rng;
use dashu_base::{Abs, BitTest, DivRem, Gcd, Sign, UnsignedAbs};
use dashu_int::{IBig, UBig, Word};
use num_bigint::{BigInt, BigUint};
use num_integer::Integer;
use num_traits::{Signed, Zero};

static S3: [Word; 3] = [Word::MAX, Word::MAX, Word::MAX];
static S5: [Word; 5] = [1, 2, 3, 4, 5];
static S9: [Word; 9] = [0, 0, 0, 0, 0, 0, 0, 0, 1];
// SAFETY: normalized (top word non-zero), never mutated or dropped (statics)
static ST3: UBig = unsafe { UBig::from_static_words(&S3) };
static ST5: UBig = unsafe { UBig::from_static_words(&S5) };
static ST9: UBig = unsafe { UBig::from_static_words(&S9) };

/// set while a history provokes a documented panic on purpose (the runner's panic hook stays quiet then)
pub static EXPECT_PANIC: std::sync::atomic::AtomicBool = std::sync::atomic::AtomicBool::new(false);

#[derive(Default, Debug, Clone)]
pub struct Stats {
    pub steps: u64,
    pub heap_to_inline: u64,
    pub inline_to_heap: u64,
    pub clone_from_cases: [u64; 4], // smaller / equal / larger / to-inline
    pub self_alias: u64,
    pub statics_used: u64,
    pub ops: std::collections::BTreeMap<&'static str, u64>,
}

pub struct Cfg {
    pub pool: usize,
    pub steps: usize,
    /// max limbs of freshly constructed values
    pub max_limbs: usize,
    /// results longer than this many limbs are replaced (bounds growth)
    pub cap_limbs: usize,
    pub heavy: bool,
}

fn fresh(r: &mut Rng, max_limbs: usize) -> (bool, Vec<u64>) {
    let l = match r.below(10) {
        0 => vec![],
        1 => vec![r.word()],
        2 => vec![r.u64(), r.word().max(1)],
        3 => vec![r.u64(), r.u64(), r.word().max(1)],
        4 => vec![0, 0, 1],
        5 => vec![u64::MAX, u64::MAX],
        6 => gen::small_mag(r),
        _ => {
            let n = match r.below(6) {
                0 => *r.pick(&[3usize, 4, 5, 6, 7, 8, 9, 10, 17, 18, 19, 33, 34, 35]),
                _ => r.usize(max_limbs + 1),
            };
            gen::shape(r, n.min(max_limbs))
        }
    };
    (r.bool(), l)
}

fn is_heap(x: &IBig) -> bool {
    x.as_sign_words().1.len() > 2
}

pub fn run_history(r: &mut Rng, cfg: &Cfg, log: &mut Vec<String>) -> Result<Stats, String> {
    let n = cfg.pool;
    let mut st = Stats::default();
    let mut p: Vec<IBig> = Vec::with_capacity(n);
    let mut q: Vec<BigInt> = Vec::with_capacity(n);
    for _ in 0..n {
        let (neg, l) = fresh(r, cfg.max_limbs);
        p.push(ibig(neg, &l));
        q.push(int(neg, &l));
    }
    for step in 0..cfg.steps {
        let i = r.usize(n);
        let j = r.usize(n);
        let k = r.usize(n);
        let was_heap = is_heap(&p[i]);
        let opn = r.below(44);
        let name: &'static str;
        macro_rules! bin {
            ($nm:expr, $op:tt) => {{
                name = $nm;
                match r.below(5) {
                    0 => p[i] = &p[j] $op &p[k],
                    1 => p[i] = p[j].clone() $op p[k].clone(),
                    2 => p[i] = p[j].clone() $op &p[k],
                    3 => p[i] = &p[j] $op p[k].clone(),
                    _ => {
                        // in-place on slot i with operand k (k may equal i: self aliasing through a clone)
                        if k == i {
                            st.self_alias += 1;
                        }
                        let rhs = p[k].clone();
                        let mut t = std::mem::take(&mut p[i]);
                        t = t $op &rhs;
                        p[i] = t;
                        q[i] = &q[i] $op &q[k];
                        log.push(format!("{}: p[{}] = take(p[{}]) {} &p[{}].clone()", step, i, i, stringify!($op), k));
                        after(&mut st, &p, &q, &[i], was_heap, step, name, log)?;
                        continue;
                    }
                }
                q[i] = &q[j] $op &q[k];
                log.push(format!("{}: p[{}] = p[{}] {} p[{}]", step, i, j, stringify!($op), k));
            }};
        }
        macro_rules! assign {
            ($nm:expr, $op:tt, $mop:tt) => {{
                name = $nm;
                if j == i {
                    st.self_alias += 1;
                    let c = p[i].clone();
                    if r.bool() {
                        p[i] $op &c;
                    } else {
                        p[i] $op c;
                    }
                } else if r.bool() {
                    let (a, b) = pair_mut(&mut p, i, j);
                    *a $op &*b;
                } else {
                    let c = p[j].clone();
                    p[i] $op c;
                }
                q[i] = &q[i] $mop &q[j];
                log.push(format!("{}: p[{}] {} p[{}]", step, i, stringify!($op), j));
            }};
        }
        match opn {
            0..=2 => {
                name = "construct";
                let (neg, l) = fresh(r, cfg.max_limbs);
                let how = r.below(6);
                let mut model = int(neg, &l);
                p[i] = match how {
                    5 => {
                        // mask constructor: all-ones values whose bit count sits on / next to word boundaries
                        // (the inline/heap decision of `ones` is made from the bit count, not from a buffer)
                        let wb = Word::BITS as usize;
                        let n = match r.below(4) {
                            0 => r.usize(5) * wb,
                            1 => (r.usize(5) * wb + 1).saturating_sub(r.usize(3)),
                            2 => r.usize(5) * 64 + r.usize(3),
                            _ => r.usize(330),
                        };
                        let mag: BigInt = (BigInt::from(1) << n) - 1;
                        model = if neg { -mag } else { mag };
                        IBig::from_parts(if neg { Sign::Negative } else { Sign::Positive }, UBig::ones(n))
                    }
                    0 => ibig(neg, &l),
                    1 => {
                        let bytes = int(neg, &l).to_signed_bytes_le();
                        if int(neg, &l).is_zero() {
                            IBig::ZERO
                        } else {
                            IBig::from_le_bytes(&bytes)
                        }
                    }
                    2 => IBig::from_str_radix(&int(neg, &l).to_str_radix(16), 16).map_err(|e| format!("parse: {:?}", e))?,
                    3 => IBig::from_parts(if neg { Sign::Negative } else { Sign::Positive }, UBig::from_le_bytes(&nat(&l).to_bytes_le())),
                    _ => {
                        if l.len() <= 2 {
                            let v = l.iter().rev().fold(0u128, |a, d| (a << 64) | *d as u128);
                            let x = IBig::from(v);
                            if neg {
                                -x
                            } else {
                                x
                            }
                        } else {
                            ibig(neg, &l)
                        }
                    }
                };
                q[i] = model;
                log.push(format!("{}: p[{}] = construct{}({})", step, i, how, show_int(&q[i])));
            }
            3..=5 => bin!("add", +),
            6..=8 => bin!("sub", -),
            9..=11 => {
                if gen::nlimbs(&limbs_of_nat(q[j].magnitude())) + gen::nlimbs(&limbs_of_nat(q[k].magnitude())) > cfg.cap_limbs {
                    continue;
                }
                bin!("mul", *)
            }
            12 | 13 => {
                if q[k].is_zero() {
                    continue;
                }
                bin!("div", /)
            }
            14 => {
                if q[k].is_zero() {
                    continue;
                }
                bin!("rem", %)
            }
            15 => bin!("and", &),
            16 => bin!("or", |),
            17 => bin!("xor", ^),
            18 => assign!("add_assign", +=, +),
            19 => assign!("sub_assign", -=, -),
            20 => {
                if gen::nlimbs(&limbs_of_nat(q[i].magnitude())) + gen::nlimbs(&limbs_of_nat(q[j].magnitude())) > cfg.cap_limbs {
                    continue;
                }
                assign!("mul_assign", *=, *)
            }
            21 => {
                if q[j].is_zero() {
                    continue;
                }
                assign!("div_assign", /=, /)
            }
            22..=25 => {
                name = "clone_from";
                let (li, lj) = (p[i].as_sign_words().1.len(), p[j].as_sign_words().1.len());
                let cls = if lj <= 2 {
                    3
                } else if li < lj {
                    0
                } else if li == lj {
                    1
                } else {
                    2
                };
                st.clone_from_cases[cls] += 1;
                if i == j {
                    let c = p[i].clone();
                    p[i].clone_from(&c);
                } else {
                    let (a, b) = pair_mut(&mut p, i, j);
                    a.clone_from(&*b);
                }
                q[i] = q[j].clone();
                log.push(format!("{}: p[{}].clone_from(p[{}]) lens {}<-{}", step, i, j, li, lj));
            }
            26 => {
                name = "take_replace";
                let t = std::mem::take(&mut p[i]);
                let mv = std::mem::take(&mut q[i]);
                if r.bool() {
                    p[j] = t;
                    q[j] = mv;
                } else {
                    drop(t);
                }
                log.push(format!("{}: take(p[{}]) -> p[{}]/drop", step, i, j));
                after(&mut st, &p, &q, &[i, j], was_heap, step, name, log)?;
                continue;
            }
            27..=29 => {
                name = "shl";
                let s = match r.below(6) {
                    0 => 64,
                    1 => 128,
                    2 => 1 + r.usize(63),
                    3 => 65 + r.usize(63),
                    _ => r.usize(200),
                };
                if gen::nlimbs(&limbs_of_nat(q[j].magnitude())) + s / 64 + 1 > cfg.cap_limbs {
                    continue;
                }
                match r.below(3) {
                    0 => p[i] = &p[j] << s,
                    1 => p[i] = p[j].clone() << s,
                    _ => {
                        let c = p[j].clone();
                        p[i] = c;
                        p[i] <<= s;
                    }
                }
                q[i] = &q[j] << s;
                log.push(format!("{}: p[{}] = p[{}] << {}", step, i, j, s));
            }
            30..=32 => {
                name = "shr";
                let bits = q[j].bits() as usize;
                let s = match r.below(6) {
                    0 => bits.saturating_sub(128),
                    1 => bits.saturating_sub(129 - r.usize(3)),
                    2 => bits.saturating_sub(64),
                    3 => 64 * r.usize(4),
                    4 => bits + r.usize(3),
                    _ => r.usize(bits + 2),
                };
                match r.below(3) {
                    0 => p[i] = &p[j] >> s,
                    1 => p[i] = p[j].clone() >> s,
                    _ => {
                        let c = p[j].clone();
                        p[i] = c;
                        p[i] >>= s;
                    }
                }
                q[i] = &q[j] >> s;
                log.push(format!("{}: p[{}] = p[{}] >> {}", step, i, j, s));
            }
            33 => {
                name = "words_bytes_chunks";
                let u: UBig = p[j].clone().unsigned_abs();
                let how = r.below(4);
                let back = match how {
                    0 => UBig::from_words(u.as_words()),
                    1 => UBig::from_le_bytes(&u.to_le_bytes()),
                    2 => UBig::from_be_bytes(&u.to_be_bytes()),
                    _ => {
                        let cb = 1 + r.usize(150);
                        let ch = u.to_chunks(cb);
                        UBig::from_chunks(ch.iter(), cb)
                    }
                };
                p[i] = IBig::from(back);
                q[i] = q[j].abs();
                log.push(format!("{}: p[{}] = roundtrip{}(|p[{}]|)", step, i, how, j));
            }
            34 => {
                name = "parts_sign";
                let (s, mag) = p[j].clone().into_parts();
                match r.below(4) {
                    0 => {
                        p[i] = IBig::from_parts(-s, mag);
                        q[i] = -q[j].clone();
                    }
                    1 => {
                        p[i] = -IBig::from_parts(s, mag);
                        q[i] = -q[j].clone();
                    }
                    2 => {
                        p[i] = IBig::from_parts(s, mag).abs();
                        q[i] = q[j].abs();
                    }
                    _ => {
                        p[i] = IBig::from(mag);
                        q[i] = q[j].abs();
                    }
                }
                log.push(format!("{}: p[{}] = sign-op(p[{}])", step, i, j));
            }
            35 => {
                name = "static";
                st.statics_used += 1;
                let (s, sm): (&'static UBig, BigUint) = match r.below(3) {
                    0 => (&ST3, nat_of(&ST3)),
                    1 => (&ST5, nat_of(&ST5)),
                    _ => (&ST9, nat_of(&ST9)),
                };
                match r.below(4) {
                    0 => {
                        p[i] = IBig::from(s.clone());
                        q[i] = BigInt::from(sm);
                    }
                    1 => {
                        p[i] = &p[j] + s;
                        q[i] = &q[j] + BigInt::from(sm);
                    }
                    2 => {
                        // clone_from with a static source onto any host
                        let mut host = p[i].clone().unsigned_abs();
                        host.clone_from(s);
                        p[i] = IBig::from(host);
                        q[i] = BigInt::from(sm);
                    }
                    _ => {
                        p[i] = IBig::from(s * s) - &p[j];
                        q[i] = BigInt::from(&sm * &sm) - &q[j];
                    }
                }
                log.push(format!("{}: p[{}] = static-op(p[{}])", step, i, j));
            }
            36 => {
                name = "sqr_self";
                if gen::nlimbs(&limbs_of_nat(q[i].magnitude())) * 2 > cfg.cap_limbs {
                    continue;
                }
                st.self_alias += 1;
                p[i] = &p[i] * &p[i];
                q[i] = &q[i] * &q[i];
                log.push(format!("{}: p[{}] = &p[{}] * &p[{}]", step, i, i, i));
            }
            37 => {
                name = "div_rem_gcd";
                if q[k].is_zero() {
                    continue;
                }
                let (dq, dr) = (&p[j]).div_rem(&p[k]);
                let (mq, mr) = q[j].div_rem(&q[k]);
                if int_of(&dq) != mq || int_of(&dr) != mr {
                    return Err(format!("step {}: div_rem mismatch", step));
                }
                let g = (&p[j]).gcd(&p[k]);
                if nat_of(&g) != q[j].magnitude().gcd(q[k].magnitude()) {
                    return Err(format!("step {}: gcd mismatch", step));
                }
                p[i] = dr;
                q[i] = mr;
                log.push(format!("{}: p[{}] = p[{}] % p[{}] via div_rem (+gcd)", step, i, j, k));
            }
            40 | 41 => {
                name = "modular";
                // a ring over a multi-word (or small) modulus taken from the pool: the ConstDivisor keeps the modulus as
                // a boxed slice, residues reuse the buffers of the integers they are built from
                let mut mm = q[j].magnitude().clone();
                if mm.is_zero() {
                    mm = BigUint::from(97u32);
                }
                let ring = dashu_int::fast_div::ConstDivisor::new(ubig_of_nat(&mm));
                let a = ring.reduce(p[k].clone());
                let b = ring.reduce(p[i].clone());
                let y = &a * &b + &a - &b;
                let mi = BigInt::from(mm.clone());
                let (ma, mb) = (q[k].mod_floor(&mi), q[i].mod_floor(&mi));
                let my = (&ma * &mb + &ma - &mb).mod_floor(&mi);
                let inv = a.clone().inv();
                if let Some(iv) = &inv {
                    if ((int_of(&IBig::from(iv.residue())) * &ma) - 1i32).mod_floor(&mi) != BigInt::zero() && mm != BigUint::from(1u32) {
                        return Err(format!("step {}: modular inverse wrong", step));
                    }
                } else if ma.gcd(&mi) == BigInt::from(1) && mm != BigUint::from(1u32) {
                    return Err(format!("step {}: invertible element reported as not invertible", step));
                }
                p[i] = IBig::from(y.residue());
                q[i] = my;
                drop((a, b, y, inv));
                drop(ring);
                log.push(format!("{}: p[{}] = (p[{}]*p[{}] + p[{}] - p[{}]) mod |p[{}]|", step, i, k, i, k, i, j));
            }
            42 | 43 => {
                name = "panic_unwind";
                // documented panics (division by zero, negative UBig result) while the operands own heap buffers: the
                // unwinding path has to release every buffer exactly once and leave the operand of an in-place form in a
                // valid state. The operand is checked and dropped afterwards; slot i keeps its value.
                let which = r.below(10);
                let mut t: IBig = p[j].clone();
                let mut u: UBig = p[j].clone().unsigned_abs();
                let big: UBig = &u + UBig::ONE;
                EXPECT_PANIC.store(true, std::sync::atomic::Ordering::SeqCst);
                let res = crate::mon::catch(|| match which {
                    0 => t /= IBig::ZERO,
                    1 => t %= &IBig::ZERO,
                    2 => u -= &big,
                    3 => u -= big.clone(),
                    4 => u /= UBig::ZERO,
                    5 => u /= 0u8,
                    6 => u %= &UBig::ZERO,
                    7 => t /= 0i32,
                    8 => drop(&t / &IBig::ZERO),
                    _ => drop(u.clone() - big.clone()),
                });
                EXPECT_PANIC.store(false, std::sync::atomic::Ordering::SeqCst);
                if res.is_ok() {
                    return Err(format!("step {}: provoked panic #{} on {} did not happen | last ops: {:?}", step, which, show_int(&q[j]), &log[log.len().saturating_sub(6)..]));
                }
                layout::check_i(&t).map_err(|e| format!("step {} (panic_unwind #{}): left operand after the panic: {}", step, which, e))?;
                layout::check_u(&u).map_err(|e| format!("step {} (panic_unwind #{}): left operand after the panic: {}", step, which, e))?;
                drop((t, u, big));
                log.push(format!("{}: provoked panic #{} with p[{}]", step, which, j));
            }
            38 => {
                name = "bit_edit";
                // either a fresh clone of slot j, or slot i itself moved out (keeps the capacity its history left)
                let own = r.bool();
                let (mut u, mut mu) = if own {
                    (std::mem::take(&mut p[i]).unsigned_abs(), q[i].magnitude().clone())
                } else {
                    (p[j].clone().unsigned_abs(), q[j].magnitude().clone())
                };
                // bit positions inside the value, in the next word, and in the words at / just past the end of the
                // allocated buffer (the reservation made before a bit is set far above the top)
                let wb = Word::BITS as usize;
                #[cfg(dashu_verif)]
                let cap = u.verif_layout().0.unsigned_abs();
                #[cfg(not(dashu_verif))]
                let cap = u.as_words().len() + 2;
                let inline = cap <= 2;
                let b = match r.below(6) {
                    0 | 1 if !inline => cap * wb + r.usize(wb),
                    2 if !inline => (cap + 1 + r.usize(3)) * wb + r.usize(wb),
                    3 => (cap.saturating_sub(1)) * wb + r.usize(wb),
                    _ => r.usize(mu.bits() as usize + 70),
                };
                if r.bool() {
                    u.set_bit(b);
                    mu.set_bit(b as u64, true);
                } else {
                    u.clear_bit(b);
                    mu.set_bit(b as u64, false);
                }
                let _ = u.bit_len();
                p[i] = IBig::from(u);
                q[i] = BigInt::from(mu);
                log.push(format!("{}: p[{}] = set/clear bit {} of |p[{}]|", step, i, b, if own { i } else { j }));
            }
            _ => {
                name = "heavy";
                if !cfg.heavy {
                    continue;
                }
                // big scratch-memory users: Karatsuba/Toom-3 multiplication and D&C division
                let la = *r.pick(&[30usize, 70, 200, 420]);
                let lb = *r.pick(&[26usize, 40, 195, 210]);
                let (a, b) = (gen::shape(r, la), gen::shape(r, lb));
                let (ua, ub) = (ubig(&a), ubig(&b));
                let prod = &ua * &ub;
                if nat_of(&prod) != nat(&a) * nat(&b) {
                    return Err(format!("step {}: heavy mul mismatch", step));
                }
                if !nat(&b).is_zero() {
                    let (dq, dr) = (&prod + &ua).div_rem(&ub);
                    let (mq, mr) = (nat(&a) * nat(&b) + nat(&a)).div_rem(&nat(&b));
                    if nat_of(&dq) != mq || nat_of(&dr) != mr {
                        return Err(format!("step {}: heavy div mismatch", step));
                    }
                }
                p[i] = IBig::from(prod >> (64 * (la + lb - 3)));
                q[i] = BigInt::from((nat(&a) * nat(&b)) >> (64 * (la + lb - 3)));
                log.push(format!("{}: heavy mul/div {}x{} limbs", step, la, lb));
            }
        }
        after(&mut st, &p, &q, &[i], was_heap, step, name, log)?;
        // bound growth
        if p[i].as_sign_words().1.len() * (Word::BITS as usize) / 64 > cfg.cap_limbs {
            let (neg, l) = fresh(r, cfg.max_limbs);
            p[i] = ibig(neg, &l);
            q[i] = int(neg, &l);
        }
    }
    // dropping the pool is part of the history
    drop(p);
    Ok(st)
}

fn pair_mut(v: &mut [IBig], i: usize, j: usize) -> (&mut IBig, &mut IBig) {
    assert!(i != j);
    if i < j {
        let (a, b) = v.split_at_mut(j);
        (&mut a[i], &mut b[0])
    } else {
        let (a, b) = v.split_at_mut(i);
        (&mut b[0], &mut a[j])
    }
}

#[allow(clippy::too_many_arguments)]
fn after(st: &mut Stats, p: &[IBig], q: &[BigInt], touched: &[usize], was_heap: bool, step: usize, name: &'static str, log: &[String]) -> Result<(), String> {
    st.steps += 1;
    *st.ops.entry(name).or_insert(0) += 1;
    for &t in touched {
        layout::check_i(&p[t]).map_err(|e| format!("step {} ({}): layout invariant broken on slot {}: {} | last ops: {:?}", step, name, t, e, &log[log.len().saturating_sub(6)..]))?;
        if int_of(&p[t]) != q[t] {
            return Err(format!("step {} ({}): slot {} holds {} but the shadow holds {} | last ops: {:?}", step, name, t, show_i(&p[t]), show_int(&q[t]), &log[log.len().saturating_sub(6)..]));
        }
    }
    let now_heap = is_heap(&p[touched[0]]);
    if was_heap && !now_heap {
        st.heap_to_inline += 1;
    }
    if !was_heap && now_heap {
        st.inline_to_heap += 1;
    }
    // every other slot is untouched: same value, and no shared buffers
    for (t, x) in p.iter().enumerate() {
        if touched.contains(&t) {
            continue;
        }
        if int_of(x) != q[t] {
            return Err(format!("step {} ({}): untouched slot {} changed to {} (shadow {}) | last ops: {:?}", step, name, t, show_i(x), show_int(&q[t]), &log[log.len().saturating_sub(6)..]));
        }
    }
    for a in 0..p.len() {
        let pa = layout::ptr_i(&p[a]);
        if pa == 0 {
            continue;
        }
        for b in (a + 1)..p.len() {
            if layout::ptr_i(&p[b]) == pa {
                return Err(format!("step {} ({}): slots {} and {} share the heap buffer {:#x}", step, name, a, b, pa));
            }
        }
    }
    let _ = q.iter().map(|x| x.is_negative()).count();
    Ok(())
}
