pub mod conv;
pub mod fmtspecs;
pub mod gen;
pub mod ival;
pub mod layout;
pub mod mon;
pub mod rng;
pub mod sites;
