pub mod conv;
pub mod gen;
pub mod layout;
pub mod mon;
pub mod rng;
pub mod sites;
