//! Interval arithmetic on dyadic fixed-point numbers (BigInt * 2^-k) with outward rounding,
//! and enclosures of ln and exp of exact rationals. Shares no code with dashu.
use num_bigint::{BigInt, BigUint};
use num_integer::Integer;
use num_rational::BigRational;
use num_traits::{One, Signed, ToPrimitive, Zero};
use std::cell::RefCell;
use std::collections::HashMap;

/// [lo, hi] * 2^-k
#[derive(Clone, Debug)]
pub struct Iv {
    pub lo: BigInt,
    pub hi: BigInt,
    pub k: u32,
}

fn shr_floor(x: &BigInt, s: u32) -> BigInt {
    x >> s // BigInt >> is floor
}

fn shr_ceil(x: &BigInt, s: u32) -> BigInt {
    -((-x) >> s)
}

fn div_floor(a: &BigInt, b: &BigInt) -> BigInt {
    a.div_floor(b)
}

fn div_ceil(a: &BigInt, b: &BigInt) -> BigInt {
    -((-a).div_floor(b))
}

impl Iv {
    pub fn exact_int(v: i64, k: u32) -> Iv {
        let x = BigInt::from(v) << k;
        Iv { lo: x.clone(), hi: x, k }
    }

    pub fn from_ratio(q: &BigRational, k: u32) -> Iv {
        let n = q.numer() << k;
        Iv { lo: div_floor(&n, q.denom()), hi: div_ceil(&n, q.denom()), k }
    }

    pub fn add(&self, o: &Iv) -> Iv {
        debug_assert_eq!(self.k, o.k);
        Iv { lo: &self.lo + &o.lo, hi: &self.hi + &o.hi, k: self.k }
    }

    pub fn sub(&self, o: &Iv) -> Iv {
        Iv { lo: &self.lo - &o.hi, hi: &self.hi - &o.lo, k: self.k }
    }

    pub fn neg(&self) -> Iv {
        Iv { lo: -&self.hi, hi: -&self.lo, k: self.k }
    }

    pub fn mul(&self, o: &Iv) -> Iv {
        let ps = [&self.lo * &o.lo, &self.lo * &o.hi, &self.hi * &o.lo, &self.hi * &o.hi];
        let mn = ps.iter().min().unwrap();
        let mx = ps.iter().max().unwrap();
        Iv { lo: shr_floor(mn, self.k), hi: shr_ceil(mx, self.k), k: self.k }
    }

    pub fn mul_int(&self, n: &BigInt) -> Iv {
        if n.is_negative() {
            Iv { lo: &self.hi * n, hi: &self.lo * n, k: self.k }
        } else {
            Iv { lo: &self.lo * n, hi: &self.hi * n, k: self.k }
        }
    }

    /// divide by a positive integer
    pub fn div_pos_int(&self, n: &BigInt) -> Iv {
        Iv { lo: div_floor(&self.lo, n), hi: div_ceil(&self.hi, n), k: self.k }
    }

    pub fn shr(&self, s: u32) -> Iv {
        Iv { lo: shr_floor(&self.lo, s), hi: shr_ceil(&self.hi, s), k: self.k }
    }

    pub fn widen(&self, eps: &BigInt) -> Iv {
        Iv { lo: &self.lo - eps, hi: &self.hi + eps, k: self.k }
    }

    pub fn lo_q(&self) -> BigRational {
        BigRational::new(self.lo.clone(), BigInt::one() << self.k)
    }

    pub fn hi_q(&self) -> BigRational {
        BigRational::new(self.hi.clone(), BigInt::one() << self.k)
    }

    pub fn width_bits_below_scale(&self) -> u64 {
        // number of bits of (hi - lo): the enclosure width is 2^(this - k)
        (&self.hi - &self.lo).bits()
    }

    pub fn to_f64_mid(&self) -> f64 {
        let mid: BigInt = (&self.lo + &self.hi) >> 1;
        let q = BigRational::new(mid, BigInt::one() << self.k);
        q.to_f64().unwrap_or(f64::NAN)
    }
}

/// enclosure of 2*atanh(z) for 0 <= z <= 1/3 + small, z given as interval at scale k
fn two_atanh(z: &Iv) -> Iv {
    let k = z.k;
    debug_assert!(!z.lo.is_negative());
    // lower: sum of floor terms with z.lo ; upper: sum of ceil terms with z.hi + tail bound
    let one = BigInt::one() << k;
    let mut sum_lo = BigInt::zero();
    let mut sum_hi = BigInt::zero();
    let z2_lo = shr_floor(&(&z.lo * &z.lo), k);
    let z2_hi = shr_ceil(&(&z.hi * &z.hi), k);
    debug_assert!(&z2_hi * 2 < one, "atanh argument too large");
    let mut p_lo = z.lo.clone();
    let mut p_hi = z.hi.clone();
    let mut i: u64 = 1;
    loop {
        let d = BigInt::from(i);
        sum_lo += div_floor(&p_lo, &d);
        let t_hi = div_ceil(&p_hi, &d);
        sum_hi += &t_hi;
        p_lo = shr_floor(&(&p_lo * &z2_lo), k);
        p_hi = shr_ceil(&(&p_hi * &z2_hi), k);
        i += 2;
        if p_hi.is_zero() || p_hi.bits() <= 1 {
            // tail <= p_hi/(i) * 1/(1 - z^2) <= 2 * p_hi (z^2 < 1/2); p_hi <= 1 unit
            sum_hi += BigInt::from(4);
            break;
        }
        if i > 4 * k as u64 + 64 {
            sum_hi += &p_hi * 2 + 4;
            break;
        }
    }
    Iv { lo: sum_lo * 2, hi: sum_hi * 2, k }
}

thread_local! {
    static LN2: RefCell<HashMap<u32, Iv>> = RefCell::new(HashMap::new());
}

pub fn ln2(k: u32) -> Iv {
    if let Some(v) = LN2.with(|c| c.borrow().get(&k).cloned()) {
        return v;
    }
    let third = Iv::from_ratio(&BigRational::new(BigInt::one(), BigInt::from(3)), k);
    let v = two_atanh(&third);
    LN2.with(|c| c.borrow_mut().insert(k, v.clone()));
    v
}

/// enclosure of ln(num/den) for num, den > 0 at scale k
pub fn ln_ratio(num: &BigUint, den: &BigUint, k: u32) -> Iv {
    assert!(!num.is_zero() && !den.is_zero());
    // x = 2^e * m, m = num*2^-e/den in [1, 2) (or (1/2, 2) boundary effects are harmless: we only need z small)
    let e = num.bits() as i64 - den.bits() as i64;
    let (mut n, mut d) = (BigInt::from(num.clone()), BigInt::from(den.clone()));
    if e >= 0 {
        d <<= e as usize;
    } else {
        n <<= (-e) as usize;
    }
    // m = n/d in (1/2, 2); z = (m-1)/(m+1) = (n-d)/(n+d), |z| < 1/3
    let zn = &n - &d;
    let zd = &n + &d;
    let neg = zn.is_negative();
    let zq = BigRational::new(zn.abs(), zd);
    let z = Iv::from_ratio(&zq, k);
    let mut l = two_atanh(&z);
    if neg {
        l = l.neg();
    }
    let l2 = ln2(k);
    l.add(&l2.mul_int(&BigInt::from(e)))
}

pub fn ln_q(x: &BigRational, k: u32) -> Iv {
    assert!(x.is_positive());
    ln_ratio(x.numer().magnitude(), x.denom().magnitude(), k)
}

/// enclosure of log2(x)
pub fn log2_q(x: &BigRational, k: u32) -> Iv {
    // log2 x = ln x / ln 2 ; do the division with rational bounds
    let l = ln_q(x, k);
    let l2 = ln2(k);
    // l2 > 0. quotient bounds depend on sign of l
    let lo = if l.lo.is_negative() { div_floor(&(&l.lo << k), &l2.lo) } else { div_floor(&(&l.lo << k), &l2.hi) };
    let hi = if l.hi.is_negative() { div_ceil(&(&l.hi << k), &l2.hi) } else { div_ceil(&(&l.hi << k), &l2.lo) };
    Iv { lo, hi, k }
}

/// exp(x) in 2^n * [iv.lo, iv.hi] * 2^-k
pub struct ExpEnc {
    pub n: i64,
    pub iv: Iv,
}

impl ExpEnc {
    pub fn lo_q(&self) -> BigRational {
        scale2(&self.iv.lo_q(), self.n)
    }
    pub fn hi_q(&self) -> BigRational {
        scale2(&self.iv.hi_q(), self.n)
    }
}

pub fn scale2(q: &BigRational, n: i64) -> BigRational {
    if n >= 0 {
        q * BigRational::from_integer(BigInt::one() << n as usize)
    } else {
        q / BigRational::from_integer(BigInt::one() << (-n) as usize)
    }
}

/// enclosure of exp(x) for a rational x; None when |x| is so large that n does not fit i64/k is too small
pub fn exp_q(x: &BigRational, k: u32) -> Option<ExpEnc> {
    let l2 = ln2(k);
    let xi = Iv::from_ratio(x, k);
    // n = round(x / ln2) estimated from the lower bounds (any integer near works)
    let nq = div_floor(&(&xi.lo << 1usize), &l2.lo); // floor(2x/ln2) roughly
    let n: BigInt = (nq + 1) >> 1usize;
    let n64 = n.to_i64()?;
    if n.bits() + 8 > k as u64 {
        return None;
    }
    let r = xi.sub(&l2.mul_int(&n)); // |r| <= ~0.36 + error
    // scale down by 2^s
    let s = ((k as f64).sqrt() as u32).max(4);
    let rs = r.shr(s);
    // Taylor: sum_{i=0}^{N} rs^i / i!, remainder <= 2 * |rs|^(N+1)/(N+1)!
    let one = Iv::exact_int(1, k);
    let mut sum = one.clone();
    let mut term = one.clone();
    let mut i: u64 = 1;
    loop {
        term = term.mul(&rs).div_pos_int(&BigInt::from(i));
        sum = sum.add(&term);
        let mag = term.lo.abs().max(term.hi.abs());
        if mag.bits() <= 1 || i > k as u64 + 64 {
            // remainder bound: |rs| < 1/2 => remaining tail <= |last term| <= 2 units
            sum = sum.widen(&(mag * 2 + 2));
            break;
        }
        i += 1;
    }
    // square s times
    let mut v = sum;
    for _ in 0..s {
        v = v.mul(&v);
    }
    Some(ExpEnc { n: n64, iv: v })
}

/// floor(log_B |y|) for an exact positive rational
pub fn floor_log(y: &BigRational, base: u32) -> i64 {
    assert!(y.is_positive());
    let b = BigInt::from(base);
    // estimate via bit lengths then correct
    let nb = y.numer().bits() as f64;
    let db = y.denom().bits() as f64;
    let mut e = (((nb - db) * std::f64::consts::LN_2) / (base as f64).ln()).floor() as i64;
    let pow = |e: i64| -> BigRational {
        if e >= 0 {
            BigRational::from_integer(num_traits::Pow::pow(&b, e as u32))
        } else {
            BigRational::new(BigInt::one(), num_traits::Pow::pow(&b, (-e) as u32))
        }
    };
    loop {
        if &pow(e) > y {
            e -= 1;
        } else if &pow(e + 1) <= y {
            e += 1;
        } else {
            return e;
        }
    }
}

pub fn selftest() -> Result<(), String> {
    let mut r = crate::rng::Rng::new(0xabcdef);
    for it in 0..300 {
        let num = r.below(1 << 40) + 1;
        let den = r.below(1 << 40) + 1;
        let neg = r.bool();
        let x = BigRational::new(BigInt::from(num), BigInt::from(den));
        let xf = num as f64 / den as f64;
        for &k in &[80u32, 160] {
            let l = ln_q(&x, k);
            if l.lo > l.hi {
                return Err("ln interval inverted".into());
            }
            let lf = xf.ln();
            let (a, b) = (l.lo_q().to_f64().unwrap(), l.hi_q().to_f64().unwrap());
            let tol = 4.0 * f64::EPSILON * lf.abs() + 4.0 * f64::EPSILON;
            if !(a - tol <= lf && lf <= b + tol) {
                return Err(format!("ln enclosure [{}, {}] misses f64 ln({}) = {}", a, b, xf, lf));
            }
            if l.width_bits_below_scale() > 24 {
                return Err(format!("ln enclosure too wide: {} bits at k={}", l.width_bits_below_scale(), k));
            }
        }
        // nesting
        let (l1, l2) = (ln_q(&x, 100), ln_q(&x, 300));
        if !(l1.lo_q() <= l2.lo_q() && l2.hi_q() <= l1.hi_q()) {
            return Err(format!("ln enclosures do not nest for {}/{}", num, den));
        }
        // exp on moderate arguments
        if it < 150 {
            let xs = if neg { -x.clone() } else { x.clone() };
            let xsf = if neg { -xf } else { xf };
            if xsf.abs() < 700.0 {
                let e1 = exp_q(&xs, 120).ok_or("exp_q none")?;
                let e2 = exp_q(&xs, 360).ok_or("exp_q none")?;
                if !(e1.lo_q() <= e2.lo_q() && e2.hi_q() <= e1.hi_q()) {
                    return Err(format!("exp enclosures do not nest for {}", xsf));
                }
                let ef = xsf.exp();
                let (a, b) = (e1.lo_q().to_f64().unwrap(), e1.hi_q().to_f64().unwrap());
                if ef.is_finite() && ef > 1e-300 && !(a * (1.0 - 1e-13) <= ef && ef <= b * (1.0 + 1e-13)) {
                    return Err(format!("exp enclosure [{}, {}] misses f64 exp({}) = {}", a, b, xsf, ef));
                }
                if e1.iv.width_bits_below_scale() > 40 {
                    return Err(format!("exp enclosure too wide: {} bits", e1.iv.width_bits_below_scale()));
                }
            }
        }
    }
    // ln(exp(1)) must contain 1
    let e = exp_q(&BigRational::one(), 200).unwrap();
    let l_lo = ln_q(&e.lo_q(), 200);
    let l_hi = ln_q(&e.hi_q(), 200);
    if !(l_lo.lo_q() <= BigRational::one() && BigRational::one() <= l_hi.hi_q()) {
        return Err("ln(exp(1)) does not contain 1".into());
    }
    if floor_log(&BigRational::new(BigInt::from(999), BigInt::one()), 10) != 2 || floor_log(&BigRational::new(BigInt::one(), BigInt::from(1000)), 10) != -3 {
        return Err("floor_log".into());
    }
    Ok(())
}
