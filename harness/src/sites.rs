//! Access to the site counters of hook 2 (no-ops without `--cfg dashu_verif`).
#[cfg(dashu_verif)]
pub use dashu_base::verif as v;

#[derive(Clone, Copy)]
pub struct Snap(#[cfg(dashu_verif)] [u64; 48]);

impl Snap {
    pub fn take() -> Snap {
        #[cfg(dashu_verif)]
        {
            let mut a = [0u64; 48];
            for (_, id) in v::SITE_NAMES {
                a[*id] = v::hits(*id);
            }
            Snap(a)
        }
        #[cfg(not(dashu_verif))]
        Snap()
    }

    /// names of the sites (restricted to those whose name starts with `prefix`) hit since `self`
    pub fn delta(&self, prefix: &str) -> String {
        #[cfg(dashu_verif)]
        {
            let mut out = String::new();
            for (name, id) in v::SITE_NAMES {
                if name.starts_with(prefix) && v::hits(*id) > self.0[*id] {
                    if !out.is_empty() {
                        out.push('+');
                    }
                    out.push_str(&name[prefix.len()..]);
                }
            }
            if out.is_empty() {
                out.push_str("none");
            }
            return out;
        }
        #[allow(unreachable_code)]
        {
            let _ = prefix;
            "nohooks".to_string()
        }
    }
}

pub fn set_fuel(_f: Option<u64>) {
    #[cfg(dashu_verif)]
    v::set_fuel(_f);
}
