//! Storage-layout invariant (hook 1). With the hooks off (`cfg(not(dashu_verif))`) only the
//! invariants visible through the public API are checked.
use dashu_int::{IBig, UBig, Word};

#[cfg(dashu_verif)]
fn check_raw(l: (isize, usize, [Word; 2], usize), words: &[Word], what: &str) -> Result<(), String> {
    let (cap, len, inline, ptr) = l;
    let acap = cap.unsigned_abs();
    if acap == 0 {
        return Err(format!("{}: capacity field is 0", what));
    }
    match acap {
        1 => {
            if inline[1] != 0 {
                return Err(format!("{}: capacity 1 but high inline word {:#x} != 0", what, inline[1]));
            }
            if inline[0] == 0 && cap < 0 {
                return Err(format!("{}: negative zero", what));
            }
            if len != (inline[0] != 0) as usize {
                return Err(format!("{}: capacity 1 but len {}", what, len));
            }
        }
        2 => {
            if inline[1] == 0 {
                return Err(format!("{}: capacity 2 but high inline word is 0 (not canonical)", what));
            }
            if len != 2 {
                return Err(format!("{}: capacity 2 but len {}", what, len));
            }
        }
        _ => {
            if len < 3 {
                return Err(format!("{}: heap representation (capacity {}) holds only {} words (values of <= 2 words must be inline)", what, cap, len));
            }
            if ptr == 0 {
                return Err(format!("{}: heap representation with null pointer", what));
            }
            if len > acap {
                return Err(format!("{}: len {} > capacity {}", what, len, acap));
            }
            let maxc = len + len / 4 + 4;
            if acap > maxc {
                return Err(format!("{}: capacity {} exceeds compactness bound {} for len {}", what, acap, maxc, len));
            }
            if words.len() != len {
                return Err(format!("{}: as_words len {} != len field {}", what, words.len(), len));
            }
            if words[len - 1] == 0 {
                return Err(format!("{}: leading zero word in heap representation of len {}", what, len));
            }
            if ptr % core::mem::align_of::<Word>() != 0 {
                return Err(format!("{}: misaligned heap pointer {:#x}", what, ptr));
            }
        }
    }
    Ok(())
}

pub fn check_u(u: &UBig) -> Result<(), String> {
    let w = u.as_words();
    if let Some(&t) = w.last() {
        if t == 0 {
            return Err(format!("UBig as_words has a leading zero word (len {})", w.len()));
        }
    }
    #[cfg(dashu_verif)]
    {
        let l = u.verif_layout();
        if l.0 < 0 {
            return Err(format!("UBig with negative capacity field {}", l.0));
        }
        check_raw(l, w, "UBig")?;
    }
    Ok(())
}

pub fn check_i(i: &IBig) -> Result<(), String> {
    let (s, w) = i.as_sign_words();
    if let Some(&t) = w.last() {
        if t == 0 {
            return Err(format!("IBig as_sign_words has a leading zero word (len {})", w.len()));
        }
    }
    if w.is_empty() && s == dashu_base::Sign::Negative {
        return Err("IBig zero with negative sign".to_string());
    }
    #[cfg(dashu_verif)]
    check_raw(i.verif_layout(), w, "IBig")?;
    Ok(())
}

/// heap pointer (0 when inline) — used to assert clone independence
pub fn ptr_u(_u: &UBig) -> usize {
    #[cfg(dashu_verif)]
    {
        return _u.verif_layout().3;
    }
    #[allow(unreachable_code)]
    0
}

pub fn ptr_i(_i: &IBig) -> usize {
    #[cfg(dashu_verif)]
    {
        return _i.verif_layout().3;
    }
    #[allow(unreachable_code)]
    0
}
