//! Monitor runtime: argument parsing, sharded supervisor/worker execution, panic capture,
//! coverage cells, known-finding matching, evidence and replay files.
use crate::rng::Rng;
use serde_json::{json, Map, Value};
use std::cell::RefCell;
use std::collections::{BTreeMap, HashSet};
use std::io::Write;
use std::panic::{catch_unwind, AssertUnwindSafe};
use std::path::{Path, PathBuf};
use std::process::{Command, Stdio};
use std::time::{Duration, Instant};

#[derive(Clone, Copy, PartialEq, Eq, Debug)]
pub enum Tier {
    Quick,
    Thorough,
}

impl Tier {
    pub fn name(self) -> &'static str {
        match self {
            Tier::Quick => "quick",
            Tier::Thorough => "thorough",
        }
    }
}

#[derive(Debug, Clone)]
pub struct Fail {
    /// failure kind, e.g. "value", "flag", "panic"
    pub kind: String,
    pub detail: String,
    /// id of the known finding whose narrow predicate this failure satisfies (decided by monitor code)
    pub finding: Option<&'static str>,
}

pub type R = Result<(), Fail>;

pub fn fail<T>(kind: &str, detail: String) -> Result<T, Fail> {
    Err(Fail { kind: kind.to_string(), detail, finding: None })
}

pub fn fail_kf<T>(kind: &str, detail: String, finding: &'static str) -> Result<T, Fail> {
    Err(Fail { kind: kind.to_string(), detail, finding: Some(finding) })
}

#[macro_export]
macro_rules! ensure {
    ($cond:expr, $kind:expr, $($arg:tt)*) => {
        if !($cond) {
            return $crate::mon::fail($kind, format!($($arg)*));
        }
    };
}

thread_local! {
    static LAST_PANIC: RefCell<Option<String>> = RefCell::new(None);
}

pub fn install_panic_hook() {
    std::panic::set_hook(Box::new(|info| {
        let msg = if let Some(s) = info.payload().downcast_ref::<&str>() {
            s.to_string()
        } else if let Some(s) = info.payload().downcast_ref::<String>() {
            s.clone()
        } else {
            "<non-string panic payload>".to_string()
        };
        let loc = info.location().map(|l| format!("{}:{}", l.file(), l.line())).unwrap_or_default();
        LAST_PANIC.with(|p| *p.borrow_mut() = Some(format!("{} @ {}", msg, loc)));
    }));
}

/// Run `f`, returning its value or the panic message ("msg @ file:line").
pub fn catch<T>(f: impl FnOnce() -> T) -> Result<T, String> {
    match catch_unwind(AssertUnwindSafe(f)) {
        Ok(v) => Ok(v),
        Err(_) => Err(LAST_PANIC.with(|p| p.borrow_mut().take()).unwrap_or_else(|| "<panic>".into())),
    }
}

/// Strip digits so that a panic message can be used as a signature.
pub fn normalize_msg(s: &str) -> String {
    let mut out = String::new();
    let mut prev_digit = false;
    for c in s.chars() {
        if c.is_ascii_digit() {
            if !prev_digit {
                out.push('#');
            }
            prev_digit = true;
        } else {
            out.push(c);
            prev_digit = false;
        }
    }
    out
}

pub struct Spec {
    pub prop: &'static str,
    pub quick_cases: u64,
    pub thorough_cases: u64,
    pub rule: &'static str,
    pub assumptions: &'static [&'static str],
    /// op names / site names / cell prefixes that must have been observed at least once
    /// (otherwise the run is inconclusive): (name, thorough_only)
    pub required: &'static [(&'static str, bool)],
    pub case: fn(&mut Mon, &mut Rng, u64),
    pub selftest: Option<fn() -> Result<(), String>>,
    /// classify a panic that escaped a check closure as a known finding
    pub panic_finding: Option<fn(op: &str, msg: &str) -> Option<&'static str>>,
}

#[derive(Clone)]
pub struct Args {
    pub tier: Tier,
    pub seed: u64,
    pub shard: Option<(u64, u64)>,
    pub out: Option<PathBuf>,
    pub replay: Option<PathBuf>,
    pub cases: Option<u64>,
    /// run `scale` x the tier's default number of cases (used by the repeats in other build profiles)
    pub scale: Option<f64>,
    pub jobs: u64,
    pub time_limit: f64,
    pub trace_file: Option<PathBuf>,
    pub only_idx: Option<u64>,
    pub verbose: bool,
}

pub fn root() -> PathBuf {
    PathBuf::from(std::env::var("DVH_ROOT").unwrap_or_else(|_| "/verif".to_string()))
}

fn parse_args() -> Args {
    let mut a = Args {
        tier: match std::env::var("VERIF_TIER").ok().as_deref() {
            Some("thorough") => Tier::Thorough,
            _ => Tier::Quick,
        },
        seed: std::env::var("VERIF_SEED").ok().and_then(|s| s.trim().parse::<i64>().ok()).map(|v| v as u64).unwrap_or(1),
        shard: None,
        out: None,
        replay: None,
        cases: None,
        scale: None,
        jobs: std::env::var("DVH_JOBS").ok().and_then(|s| s.parse().ok()).unwrap_or(16),
        time_limit: 0.0,
        trace_file: None,
        only_idx: None,
        verbose: false,
    };
    let mut explicit_tl = false;
    let v: Vec<String> = std::env::args().skip(1).collect();
    let mut i = 0;
    while i < v.len() {
        let next = |i: &mut usize| -> String {
            *i += 1;
            v.get(*i).cloned().unwrap_or_else(|| {
                eprintln!("missing value for {}", v[*i - 1]);
                std::process::exit(2)
            })
        };
        match v[i].as_str() {
            "--tier" => {
                a.tier = match next(&mut i).as_str() {
                    "quick" => Tier::Quick,
                    "thorough" => Tier::Thorough,
                    t => {
                        eprintln!("unknown tier {}", t);
                        std::process::exit(2)
                    }
                }
            }
            "--seed" => a.seed = next(&mut i).parse::<i64>().expect("seed") as u64,
            "--shard" => {
                let s = next(&mut i);
                let (x, y) = s.split_once('/').expect("i/n");
                a.shard = Some((x.parse().unwrap(), y.parse().unwrap()));
            }
            "--out" => a.out = Some(PathBuf::from(next(&mut i))),
            "--replay" => a.replay = Some(PathBuf::from(next(&mut i))),
            "--cases" => a.cases = Some(next(&mut i).parse().unwrap()),
            "--scale" => a.scale = Some(next(&mut i).parse().unwrap()),
            "--jobs" => a.jobs = next(&mut i).parse().unwrap(),
            "--time-limit" => {
                a.time_limit = next(&mut i).parse().unwrap();
                explicit_tl = true;
            }
            "--trace-file" => a.trace_file = Some(PathBuf::from(next(&mut i))),
            "--idx" => a.only_idx = Some(next(&mut i).parse().unwrap()),
            "-v" | "--verbose" => a.verbose = true,
            x => {
                eprintln!("unknown argument {}", x);
                std::process::exit(2)
            }
        }
        i += 1;
    }
    if !explicit_tl {
        a.time_limit = match a.tier {
            Tier::Quick => 150.0,
            Tier::Thorough => 2400.0,
        };
    }
    a
}

const MAX_DISTINCT: usize = 3_000_000;
const MAX_SAMPLES_PER_OP: usize = 2;
const MAX_VIOLATIONS: usize = 40;

pub struct Mon {
    pub prop: &'static str,
    pub tier: Tier,
    pub seed: u64,
    pub idx: u64,
    pub verbose: bool,
    spec_panic_finding: Option<fn(&str, &str) -> Option<&'static str>>,
    evals: u64,
    nontrivial: u64,
    distinct: HashSet<u64>,
    distinct_saturated: bool,
    ops: BTreeMap<String, u64>,
    cells: BTreeMap<String, u64>,
    samples: BTreeMap<String, Vec<String>>,
    violations: Vec<Value>,
    n_violations: u64,
    known: BTreeMap<String, (u64, String)>,
    inconclusive: u64,
    notes: BTreeMap<String, u64>,
    open_findings: HashSet<String>,
    op_ns: BTreeMap<String, u64>,
    last_t: Instant,
}

impl Mon {
    pub fn thorough(&self) -> bool {
        self.tier == Tier::Thorough
    }

    /// Count an auxiliary observation (shows up in the evidence under `counters`).
    pub fn note(&mut self, key: &str) {
        *self.notes.entry(key.to_string()).or_insert(0) += 1;
    }

    pub fn note_n(&mut self, key: &str, n: u64) {
        *self.notes.entry(key.to_string()).or_insert(0) += n;
    }

    pub fn inconclusive(&mut self, why: &str) {
        self.inconclusive += 1;
        self.note(&format!("inconclusive:{}", why));
    }

    /// One oracle decision. `cell` is the coverage cell, `nontrivial` the operand hash when the
    /// case is non-trivial by the monitor's rule, `desc` renders the case for samples/replays.
    pub fn check(
        &mut self,
        op: &str,
        cell: &str,
        nontrivial: Option<u64>,
        desc: &dyn Fn() -> String,
        f: impl FnOnce() -> R,
    ) {
        self.evals += 1;
        *self.ops.entry(op.to_string()).or_insert(0) += 1;
        if !cell.is_empty() {
            let key = format!("{}/{}", op, cell);
            *self.cells.entry(key).or_insert(0) += 1;
        }
        if let Some(h) = nontrivial {
            self.nontrivial += 1;
            if self.distinct.len() < MAX_DISTINCT {
                self.distinct.insert(crate::rng::mix(h ^ crate::rng::hash_str(op)));
            } else {
                self.distinct_saturated = true;
            }
            let s = self.samples.entry(op.to_string()).or_default();
            if s.len() < MAX_SAMPLES_PER_OP {
                s.push(desc());
            }
        }
        let res = match catch(f) {
            Ok(r) => r,
            Err(msg) => {
                let finding = self.spec_panic_finding.and_then(|pf| pf(op, &msg));
                Err(Fail { kind: format!("panic:{}", normalize_msg(&msg)), detail: msg, finding })
            }
        };
        if let Err(fl) = res {
            self.record_failure(op, fl, desc());
        }
        let now = Instant::now();
        *self.op_ns.entry(op.to_string()).or_insert(0) += (now - self.last_t).as_nanos() as u64;
        self.last_t = now;
    }

    fn record_failure(&mut self, op: &str, fl: Fail, case_desc: String) {
        if self.verbose {
            eprintln!("FAIL idx={} op={} kind={} detail={} case={}", self.idx, op, fl.kind, fl.detail, case_desc);
        }
        self.note(&format!("failure:{}:{}", op, truncate(&fl.kind, 80)));
        if let Some(id) = fl.finding {
            if self.open_findings.contains(id) {
                let e = self.known.entry(id.to_string()).or_insert((0, String::new()));
                e.0 += 1;
                if e.1.is_empty() {
                    e.1 = format!("idx={} op={} kind={} {} :: {}", self.idx, op, fl.kind, fl.detail, case_desc);
                }
                return;
            }
        }
        self.n_violations += 1;
        if self.violations.len() < MAX_VIOLATIONS {
            self.violations.push(json!({
                "idx": self.idx, "op": op, "kind": fl.kind, "detail": fl.detail, "case": case_desc,
                "claimed_finding": fl.finding,
            }));
        }
    }

    fn result_json(&self, wall: f64, done_cases: u64, stopped_early: bool) -> Value {
        let mut sites = Map::new();
        #[cfg(dashu_verif)]
        for (name, id) in dashu_base::verif::SITE_NAMES {
            sites.insert(name.to_string(), json!(dashu_base::verif::hits(*id)));
        }
        json!({
            "evals": self.evals,
            "cases": done_cases,
            "nontrivial": self.nontrivial,
            "distinct_saturated": self.distinct_saturated,
            "ops": self.ops,
            "op_ms": self.op_ns.iter().map(|(k, v)| (k.clone(), json!(v / 1_000_000))).collect::<Map<_, _>>(),
            "cells": self.cells,
            "samples": self.samples,
            "violations": self.violations,
            "n_violations": self.n_violations,
            "known": self.known.iter().map(|(k, v)| (k.clone(), json!({"count": v.0, "example": v.1}))).collect::<Map<_, _>>(),
            "inconclusive": self.inconclusive,
            "counters": self.notes,
            "sites": sites,
            "wall_s": wall,
            "stopped_early": stopped_early,
        })
    }
}

pub fn load_findings(prop: &str) -> (HashSet<String>, Vec<Value>) {
    let path = root().join("known_findings.jsonl");
    let mut open = HashSet::new();
    let mut all = vec![];
    if let Ok(text) = std::fs::read_to_string(&path) {
        for line in text.lines() {
            let line = line.trim();
            if line.is_empty() || line.starts_with('#') {
                continue;
            }
            if let Ok(v) = serde_json::from_str::<Value>(line) {
                if v["property"].as_str() == Some(prop) || v["also"].as_array().map_or(false, |a| a.iter().any(|p| p.as_str() == Some(prop))) {
                    if v["status"].as_str() == Some("open") {
                        if let Some(id) = v["id"].as_str() {
                            open.insert(id.to_string());
                        }
                    }
                    all.push(v);
                }
            }
        }
    }
    (open, all)
}

fn total_cases(spec: &Spec, a: &Args) -> u64 {
    let dflt = match a.tier {
        Tier::Quick => spec.quick_cases,
        Tier::Thorough => spec.thorough_cases,
    };
    match (a.cases, a.scale) {
        (Some(c), _) => c,
        (None, Some(f)) => ((dflt as f64 * f) as u64).max(1),
        (None, None) => dflt,
    }
}

fn new_mon(spec: &Spec, a: &Args) -> Mon {
    let (open, _) = load_findings(spec.prop);
    Mon {
        prop: spec.prop,
        tier: a.tier,
        seed: a.seed,
        idx: 0,
        verbose: a.verbose,
        spec_panic_finding: spec.panic_finding,
        evals: 0,
        nontrivial: 0,
        distinct: HashSet::new(),
        distinct_saturated: false,
        ops: BTreeMap::new(),
        cells: BTreeMap::new(),
        samples: BTreeMap::new(),
        violations: vec![],
        n_violations: 0,
        known: BTreeMap::new(),
        inconclusive: 0,
        notes: BTreeMap::new(),
        open_findings: open,
        op_ns: BTreeMap::new(),
        last_t: Instant::now(),
    }
}

fn run_one_case(spec: &Spec, m: &mut Mon, idx: u64) {
    m.idx = idx;
    let mut rng = Rng::for_case(m.seed, spec.prop, idx);
    let case = spec.case;
    // a panic escaping the case function itself (outside any check closure) is a harness-level
    // observation: record it as a failure of the pseudo-op "case"
    let r = catch(|| case(m, &mut rng, idx));
    if let Err(msg) = r {
        let finding = spec.panic_finding.and_then(|pf| pf("case", &msg));
        m.record_failure(
            "case",
            Fail { kind: format!("panic:{}", normalize_msg(&msg)), detail: msg, finding },
            format!("whole case idx={}", idx),
        );
    }
}

fn worker(spec: &Spec, a: &Args) -> ! {
    install_panic_hook();
    let (shard, n) = a.shard.unwrap();
    let total = total_cases(spec, a);
    let mut m = new_mon(spec, a);
    let start = Instant::now();
    let mut done = 0u64;
    let mut stopped = false;
    let mut trace = a.trace_file.as_ref().map(|p| std::fs::OpenOptions::new().create(true).write(true).truncate(true).open(p).expect("trace file"));
    let mut idx = shard;
    while idx < total {
        if let Some(only) = a.only_idx {
            if idx != only {
                idx += n;
                continue;
            }
        }
        if let Some(t) = trace.as_mut() {
            use std::io::Seek;
            let _ = t.seek(std::io::SeekFrom::Start(0));
            let _ = t.write_all(format!("{:020}\n", idx).as_bytes());
            let _ = t.flush();
        }
        run_one_case(spec, &mut m, idx);
        done += 1;
        idx += n;
        if done % 64 == 0 && start.elapsed().as_secs_f64() > a.time_limit {
            stopped = true;
            break;
        }
    }
    let wall = start.elapsed().as_secs_f64();
    let res = m.result_json(wall, done, stopped);
    let out = a.out.clone().expect("--out required for worker");
    std::fs::write(&out, serde_json::to_vec(&res).unwrap()).expect("write shard result");
    let mut hb = Vec::with_capacity(m.distinct.len() * 8);
    for h in &m.distinct {
        hb.extend_from_slice(&h.to_le_bytes());
    }
    std::fs::write(out.with_extension("hashes"), hb).expect("write hashes");
    std::process::exit(0)
}

fn merge_count(dst: &mut BTreeMap<String, u64>, src: &Value) {
    if let Some(o) = src.as_object() {
        for (k, v) in o {
            *dst.entry(k.clone()).or_insert(0) += v.as_u64().unwrap_or(0);
        }
    }
}

fn replay(spec: &Spec, a: &Args, path: &Path) -> ! {
    install_panic_hook();
    let text = std::fs::read_to_string(path).unwrap_or_else(|e| {
        eprintln!("cannot read replay file {}: {}", path.display(), e);
        std::process::exit(2)
    });
    let v: Value = serde_json::from_str(&text).expect("replay json");
    let mut a2 = a.clone();
    a2.seed = v["seed"].as_u64().or_else(|| v["seed"].as_i64().map(|x| x as u64)).unwrap_or(1);
    a2.tier = if v["tier"].as_str() == Some("thorough") { Tier::Thorough } else { Tier::Quick };
    a2.verbose = true;
    crate::gen::FULL_HEX.store(true, std::sync::atomic::Ordering::Relaxed);
    let idx = v["idx"].as_u64().expect("idx");
    let mut m = new_mon(spec, &a2);
    run_one_case(spec, &mut m, idx);
    println!("replay property={} seed={} tier={} idx={}: evaluations={} violations={} known_finding_hits={}",
        spec.prop, a2.seed, a2.tier.name(), idx, m.evals, m.n_violations, m.known.values().map(|v| v.0).sum::<u64>());
    for (id, (_, ex)) in &m.known {
        println!("KNOWN-FINDING: property={} {} {}", spec.prop, id, ex);
    }
    if m.n_violations > 0 {
        for v in &m.violations {
            println!("  {}", v);
        }
        println!("VIOLATION property={} replay={}", spec.prop, path.display());
        std::process::exit(1)
    }
    std::process::exit(0)
}

fn supervisor(spec: &Spec, a: &Args) -> ! {
    let start = Instant::now();
    if let Some(st) = spec.selftest {
        install_panic_hook();
        match catch(st) {
            Ok(Ok(())) => {}
            Ok(Err(e)) | Err(e) => {
                println!("INCONCLUSIVE property={} oracle self-test failed: {}", spec.prop, e);
                std::process::exit(2)
            }
        }
        let _ = std::panic::take_hook();
    }
    let total = total_cases(spec, a);
    let jobs = a.jobs.max(1).min(total.max(1));
    let exe = std::env::current_exe().expect("current_exe");
    let tmp = root().join("harness").join("target").join("run").join(format!("{}-{}-{}", spec.prop, a.tier.name(), std::process::id()));
    let _ = std::fs::remove_dir_all(&tmp);
    std::fs::create_dir_all(&tmp).expect("tmp dir");
    let spawn = |i: u64, trace: bool| {
        let mut c = Command::new(&exe);
        c.arg("--tier").arg(a.tier.name()).arg("--seed").arg((a.seed as i64).to_string())
            .arg("--shard").arg(format!("{}/{}", i, jobs))
            .arg("--out").arg(tmp.join(format!("shard{}.json", i)))
            .arg("--time-limit").arg(a.time_limit.to_string())
            .arg("--cases").arg(total.to_string());
        if let Some(o) = a.only_idx {
            c.arg("--idx").arg(o.to_string());
        }
        if trace {
            c.arg("--trace-file").arg(tmp.join(format!("trace{}.txt", i)));
        }
        c.stdin(Stdio::null()).stdout(Stdio::null()).stderr(Stdio::piped());
        c.spawn().expect("spawn worker")
    };
    let mut children: Vec<(u64, std::process::Child)> = (0..jobs).map(|i| (i, spawn(i, false))).collect();
    // workers stop by themselves at the time limit (between cases); the watchdog only ends a worker that is stuck
    // inside one case. Its firing is never a verdict by itself (inconclusive unless the re-run confirms a death).
    let hard_limit = Duration::from_secs_f64(a.time_limit * 1.5 + 90.0);
    let mut statuses: BTreeMap<u64, Option<std::process::ExitStatus>> = BTreeMap::new();
    let mut stderrs: BTreeMap<u64, String> = BTreeMap::new();
    // wait with watchdog
    loop {
        let mut all = true;
        for (i, ch) in children.iter_mut() {
            if statuses.contains_key(i) {
                continue;
            }
            match ch.try_wait() {
                Ok(Some(st)) => {
                    let mut s = String::new();
                    if let Some(mut e) = ch.stderr.take() {
                        use std::io::Read;
                        let _ = e.read_to_string(&mut s);
                    }
                    stderrs.insert(*i, s);
                    statuses.insert(*i, Some(st));
                }
                Ok(None) => all = false,
                Err(_) => {
                    statuses.insert(*i, None);
                }
            }
        }
        if all {
            break;
        }
        if start.elapsed() > hard_limit {
            for (i, ch) in children.iter_mut() {
                if !statuses.contains_key(i) {
                    let _ = ch.kill();
                    let _ = ch.wait();
                    statuses.insert(*i, None);
                }
            }
            break;
        }
        std::thread::sleep(Duration::from_millis(20));
    }

    // merge
    let mut evals = 0u64;
    let mut cases = 0u64;
    let mut nontrivial = 0u64;
    let mut ops = BTreeMap::new();
    let mut op_ms = BTreeMap::new();
    let mut cells = BTreeMap::new();
    let mut counters = BTreeMap::new();
    let mut sites = BTreeMap::new();
    let mut samples: BTreeMap<String, Vec<Value>> = BTreeMap::new();
    let mut violations: Vec<Value> = vec![];
    let mut n_viol = 0u64;
    let mut known: BTreeMap<String, (u64, String)> = BTreeMap::new();
    let mut inconclusive_cases = 0u64;
    let mut distinct: HashSet<u64> = HashSet::new();
    let mut saturated = false;
    let mut stopped_early = 0u64;
    let mut dead: Vec<(u64, String)> = vec![];
    for i in 0..jobs {
        let p = tmp.join(format!("shard{}.json", i));
        let ok = statuses.get(&i).and_then(|s| *s).map_or(false, |s| s.success());
        let data = std::fs::read(&p).ok().and_then(|b| serde_json::from_slice::<Value>(&b).ok());
        let (true, Some(v)) = (ok, data) else {
            let st = statuses.get(&i).and_then(|s| *s).map(|s| format!("{:?}", s)).unwrap_or_else(|| "killed by watchdog".into());
            let tail: String = stderrs.get(&i).map(|s| s.lines().rev().take(6).collect::<Vec<_>>().into_iter().rev().collect::<Vec<_>>().join(" | ")).unwrap_or_default();
            dead.push((i, format!("{} stderr: {}", st, tail)));
            continue;
        };
        evals += v["evals"].as_u64().unwrap_or(0);
        cases += v["cases"].as_u64().unwrap_or(0);
        nontrivial += v["nontrivial"].as_u64().unwrap_or(0);
        saturated |= v["distinct_saturated"].as_bool().unwrap_or(false);
        if v["stopped_early"].as_bool().unwrap_or(false) {
            stopped_early += 1;
        }
        merge_count(&mut ops, &v["ops"]);
        merge_count(&mut op_ms, &v["op_ms"]);
        merge_count(&mut cells, &v["cells"]);
        merge_count(&mut counters, &v["counters"]);
        merge_count(&mut sites, &v["sites"]);
        inconclusive_cases += v["inconclusive"].as_u64().unwrap_or(0);
        n_viol += v["n_violations"].as_u64().unwrap_or(0);
        if let Some(arr) = v["violations"].as_array() {
            violations.extend(arr.iter().cloned());
        }
        if let Some(o) = v["samples"].as_object() {
            for (k, arr) in o {
                let e = samples.entry(k.clone()).or_default();
                for s in arr.as_array().into_iter().flatten() {
                    if e.len() < MAX_SAMPLES_PER_OP {
                        e.push(s.clone());
                    }
                }
            }
        }
        if let Some(o) = v["known"].as_object() {
            for (k, e) in o {
                let d = known.entry(k.clone()).or_insert((0, String::new()));
                d.0 += e["count"].as_u64().unwrap_or(0);
                if d.1.is_empty() {
                    d.1 = e["example"].as_str().unwrap_or("").to_string();
                }
            }
        }
        if let Ok(hb) = std::fs::read(p.with_extension("hashes")) {
            for c in hb.chunks_exact(8) {
                if distinct.len() < 4 * MAX_DISTINCT {
                    distinct.insert(u64::from_le_bytes(c.try_into().unwrap()));
                } else {
                    saturated = true;
                }
            }
        }
    }

    // a dead worker: re-run that shard in trace mode to find the case that kills the process
    let mut crash_reports: Vec<Value> = vec![];
    let mut harness_errors: Vec<String> = vec![];
    // (all dead shards are re-run at the same time; a re-run reaches the fatal case no later than the first run did)
    let mut reruns: Vec<(u64, String, std::process::Child)> = dead.iter().map(|(i, why)| (*i, why.clone(), spawn(*i, true))).collect();
    let deadline = Instant::now() + Duration::from_secs_f64(a.time_limit + 90.0);
    let mut rerun_status: BTreeMap<u64, Option<std::process::ExitStatus>> = BTreeMap::new();
    loop {
        let mut all = true;
        for (i, _, ch) in reruns.iter_mut() {
            if rerun_status.contains_key(i) {
                continue;
            }
            match ch.try_wait() {
                Ok(Some(st)) => {
                    rerun_status.insert(*i, Some(st));
                }
                Ok(None) => all = false,
                Err(_) => {
                    rerun_status.insert(*i, None);
                }
            }
        }
        if all {
            break;
        }
        if Instant::now() > deadline {
            for (i, _, ch) in reruns.iter_mut() {
                if !rerun_status.contains_key(i) {
                    let _ = ch.kill();
                    let _ = ch.wait();
                    rerun_status.insert(*i, None);
                }
            }
            break;
        }
        std::thread::sleep(Duration::from_millis(20));
    }
    for (i, why) in &dead {
        let st = rerun_status.get(i).cloned().flatten();
        let idx = std::fs::read_to_string(tmp.join(format!("trace{}.txt", i))).ok().and_then(|s| s.trim().parse::<u64>().ok());
        match (st, idx) {
            (Some(s), _) if s.success() => harness_errors.push(format!("shard {} died ({}) but succeeded when re-run: not reproducible", i, why)),
            (None, Some(idx)) => harness_errors.push(format!("shard {} exceeded the wall-clock watchdog at case idx={} ({})", i, idx, why)),
            (Some(s), Some(idx)) => {
                crash_reports.push(json!({"idx": idx, "op": "process", "kind": "process-death", "detail": format!("worker process died: {:?} ({})", s, why), "case": format!("case idx={}", idx)}));
            }
            _ => harness_errors.push(format!("shard {} died: {}", i, why)),
        }
    }
    n_viol += crash_reports.len() as u64;
    violations.extend(crash_reports);

    let wall = start.elapsed().as_secs_f64();

    // required coverage
    let mut missing: Vec<String> = vec![];
    if a.only_idx.is_none() && a.cases.is_none() && a.scale.is_none() {
        for (name, thorough_only) in spec.required {
            if *thorough_only && a.tier != Tier::Thorough {
                continue;
            }
            let seen = ops.get(*name).copied().unwrap_or(0) > 0
                || sites.get(*name).copied().unwrap_or(0) > 0
                || counters.get(*name).copied().unwrap_or(0) > 0
                || cells.iter().any(|(k, c)| *c > 0 && k.starts_with(name));
            if !seen {
                missing.push(name.to_string());
            }
        }
    }

    // replay files for violations
    let rdir = root().join("replays");
    let _ = std::fs::create_dir_all(&rdir);
    violations.sort_by_key(|v| v["idx"].as_u64().unwrap_or(u64::MAX));
    let mut printed = vec![];
    let mut seen_sig: HashSet<String> = HashSet::new();
    for v in &violations {
        let sig = format!("{}|{}", v["op"].as_str().unwrap_or(""), v["kind"].as_str().unwrap_or(""));
        if !seen_sig.insert(sig) || printed.len() >= 12 {
            continue;
        }
        let idx = v["idx"].as_u64().unwrap_or(0);
        let path = rdir.join(format!("{}-{}-s{}-i{}.json", spec.prop, a.tier.name(), a.seed as i64, idx));
        let body = json!({"property": spec.prop, "tier": a.tier.name(), "seed": a.seed as i64, "idx": idx, "violation": v});
        let _ = std::fs::write(&path, serde_json::to_string_pretty(&body).unwrap());
        printed.push((path, v.clone()));
    }

    let (_, all_findings) = load_findings(spec.prop);
    let sample_list: Vec<Value> = samples.iter().flat_map(|(op, v)| v.iter().map(move |s| json!({"op": op, "case": s}))).take(60).collect();
    let distinct_n = distinct.len() as u64;
    let evidence = json!({
        "property_id": spec.prop,
        "tier": a.tier.name(),
        "seed": a.seed as i64,
        "level": "exploration",
        "coverage": {
            "evaluations": evals,
            "distinct_nontrivial": distinct_n,
            "rule": format!("{} distinct_nontrivial = number of distinct (operation, operand-hash) pairs among cases the monitor marks non-trivial{}.",
                spec.rule, if saturated { " (hash set saturated: lower bound)" } else { "" }),
            "samples": sample_list,
            "cases": cases,
            "nontrivial_evaluations": nontrivial,
            "per_operation": ops,
            "per_operation_cpu_ms": op_ms,
            "cells_observed": cells.len(),
            "cells": cells.iter().take(400).map(|(k, v)| (k.clone(), json!(v))).collect::<Map<_, _>>(),
            "internal_sites_hit": sites,
            "counters": counters,
            "inconclusive_cases": inconclusive_cases,
            "known_finding_hits": known.iter().map(|(k, v)| (k.clone(), json!({"count": v.0, "example": v.1}))).collect::<Map<_, _>>(),
            "shards": jobs,
            "shards_stopped_by_time_limit": stopped_early,
            "missing_required_coverage": missing,
            "harness_errors": harness_errors,
            "exhaustive": false,
        },
        "assumptions": spec.assumptions,
        "wall_s": wall,
        "violations": n_viol,
    });
    let edir = root().join("evidence");
    let _ = std::fs::create_dir_all(&edir);
    std::fs::write(edir.join(format!("{}.json", spec.prop)), serde_json::to_string_pretty(&evidence).unwrap()).expect("write evidence");
    let _ = std::fs::remove_dir_all(&tmp);

    println!("{} tier={} seed={} cases={} evaluations={} distinct_nontrivial={} cells={} known_finding_hits={} inconclusive_cases={} wall={:.1}s",
        spec.prop, a.tier.name(), a.seed as i64, cases, evals, distinct_n, cells.len(), known.values().map(|v| v.0).sum::<u64>(), inconclusive_cases, wall);
    // every open finding listed for this property is reported, with the number of times its predicate matched in this run
    for f in all_findings.iter().filter(|f| f["status"].as_str() == Some("open") && f["property"].as_str() == Some(spec.prop)) {
        let id = f["id"].as_str().unwrap_or("");
        let what = f["what"].as_str().unwrap_or("");
        match known.get(id) {
            Some((n, ex)) => println!("KNOWN-FINDING: property={} {} ({} hits in this run) {} e.g. {}", spec.prop, id, n, truncate(what, 400), truncate(ex, 300)),
            None => println!("KNOWN-FINDING: property={} {} (0 hits in this run) {}", spec.prop, id, truncate(what, 400)),
        }
    }
    // a known finding may carry a ceiling on how often its predicate may match (hits / evaluations):
    // a much higher density than the recorded one is a different failure hiding behind the same predicate
    let mut rate_violation = false;
    for f in all_findings.iter().filter(|f| f["status"].as_str() == Some("open") && f["property"].as_str() == Some(spec.prop)) {
        if let (Some(id), Some(maxr)) = (f["id"].as_str(), f["max_hit_rate"].as_f64()) {
            let hits = known.get(id).map_or(0, |v| v.0);
            if evals > 2000 && hits as f64 > maxr * evals as f64 {
                let path = rdir.join(format!("{}-{}-s{}-rate-{}.json", spec.prop, a.tier.name(), a.seed as i64, id));
                let ex = known.get(id).map(|v| v.1.clone()).unwrap_or_default();
                let idx = ex.strip_prefix("idx=").and_then(|t| t.split_whitespace().next()).and_then(|t| t.parse::<u64>().ok()).unwrap_or(0);
                let body = json!({"property": spec.prop, "tier": a.tier.name(), "seed": a.seed as i64, "idx": idx, "violation": {"kind": "known_finding_rate", "finding": id, "hits": hits, "evaluations": evals, "max_hit_rate": maxr, "example": ex}});
                let _ = std::fs::write(&path, serde_json::to_string_pretty(&body).unwrap());
                println!("  known finding {} matched {} of {} evaluations, above its recorded ceiling of {:.3}%", id, hits, evals, maxr * 100.0);
                println!("VIOLATION property={} replay={}", spec.prop, path.display());
                rate_violation = true;
            }
        }
    }
    if rate_violation && n_viol == 0 {
        std::process::exit(1)
    }
    if n_viol > 0 {
        println!("{} violation(s) observed, {} distinct signatures reported", n_viol, printed.len());
        for (path, v) in &printed {
            println!("  op={} kind={} detail={} case={}", v["op"].as_str().unwrap_or(""), truncate(v["kind"].as_str().unwrap_or(""), 160), truncate(v["detail"].as_str().unwrap_or(""), 400), truncate(v["case"].as_str().unwrap_or(""), 400));
            println!("VIOLATION property={} replay={}", spec.prop, path.display());
        }
        std::process::exit(1)
    }
    if !harness_errors.is_empty() || !missing.is_empty() || evals == 0 {
        println!("INCONCLUSIVE property={} harness_errors={:?} missing_required_coverage={:?} evaluations={}", spec.prop, harness_errors, missing, evals);
        std::process::exit(2)
    }
    std::process::exit(0)
}

pub fn truncate(s: &str, n: usize) -> String {
    if s.chars().count() <= n {
        s.to_string()
    } else {
        let t: String = s.chars().take(n).collect();
        format!("{}…", t)
    }
}

pub fn main(spec: Spec) -> ! {
    crate::gen::WORD_AWARE.store(true, std::sync::atomic::Ordering::Relaxed);
    let a = parse_args();
    if let Some(p) = a.replay.clone() {
        replay(&spec, &a, &p)
    }
    if a.shard.is_some() {
        worker(&spec, &a)
    }
    supervisor(&spec, &a)
}
