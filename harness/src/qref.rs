//! Reference rounding over exact rationals and the rounding-contract checker used by the float monitors.
use crate::conv::pow_q;
use crate::ival::floor_log;
use dashu_float::round::{mode, Round, Rounding};
use num_bigint::BigInt;
use num_integer::Integer;
use num_rational::BigRational;
use num_traits::{One, Signed, Zero};
use std::cmp::Ordering;

#[derive(Clone, Copy, PartialEq, Eq, Debug)]
pub enum Mode {
    Zero,
    Away,
    Up,
    Down,
    HalfEven,
    HalfAway,
}

impl Mode {
    pub fn is_half(self) -> bool {
        matches!(self, Mode::HalfEven | Mode::HalfAway)
    }
    pub fn name(self) -> &'static str {
        match self {
            Mode::Zero => "Zero",
            Mode::Away => "Away",
            Mode::Up => "Up",
            Mode::Down => "Down",
            Mode::HalfEven => "HalfEven",
            Mode::HalfAway => "HalfAway",
        }
    }
    pub const ALL: [Mode; 6] = [Mode::Zero, Mode::Away, Mode::Up, Mode::Down, Mode::HalfEven, Mode::HalfAway];
}

/// dashu rounding-mode types tagged with the harness' own `Mode`
pub trait ModeTag: Round {
    const M: Mode;
}
impl ModeTag for mode::Zero {
    const M: Mode = Mode::Zero;
}
impl ModeTag for mode::Away {
    const M: Mode = Mode::Away;
}
impl ModeTag for mode::Up {
    const M: Mode = Mode::Up;
}
impl ModeTag for mode::Down {
    const M: Mode = Mode::Down;
}
impl ModeTag for mode::HalfEven {
    const M: Mode = Mode::HalfEven;
}
impl ModeTag for mode::HalfAway {
    const M: Mode = Mode::HalfAway;
}

/// how an operation reported its result
#[derive(Clone, Copy, PartialEq, Eq, Debug)]
pub enum Flag {
    Exact,
    NoOp,
    AddOne,
    SubOne,
}

impl Flag {
    pub fn of<T>(a: &dashu_base::Approximation<T, Rounding>) -> Flag {
        match a {
            dashu_base::Approximation::Exact(_) => Flag::Exact,
            dashu_base::Approximation::Inexact(_, Rounding::NoOp) => Flag::NoOp,
            dashu_base::Approximation::Inexact(_, Rounding::AddOne) => Flag::AddOne,
            dashu_base::Approximation::Inexact(_, Rounding::SubOne) => Flag::SubOne,
        }
    }
}

/// Round the integer part of an exact rational `t` (in units of the last place) by `mode`:
/// returns the chosen integer. Textbook definition of the six modes.
pub fn round_units(t: &BigRational, mode: Mode) -> BigInt {
    let fl = t.floor().to_integer();
    if t.is_integer() {
        return fl;
    }
    let ce = &fl + 1;
    let neg = t.is_negative();
    match mode {
        Mode::Down => fl,
        Mode::Up => ce,
        Mode::Zero => {
            if neg {
                ce
            } else {
                fl
            }
        }
        Mode::Away => {
            if neg {
                fl
            } else {
                ce
            }
        }
        Mode::HalfEven | Mode::HalfAway => {
            let frac = t - BigRational::from_integer(fl.clone());
            let half = BigRational::new(BigInt::one(), BigInt::from(2));
            match frac.cmp(&half) {
                Ordering::Less => fl,
                Ordering::Greater => ce,
                Ordering::Equal => {
                    if mode == Mode::HalfAway {
                        if neg {
                            fl
                        } else {
                            ce
                        }
                    } else if fl.is_even() {
                        fl
                    } else {
                        ce
                    }
                }
            }
        }
    }
}

/// unit in the last place of the true value at precision p: B^(floor(log_B |x|) - p + 1)
pub fn ulp_exp(x: &BigRational, base: u32, p: usize) -> i64 {
    floor_log(&x.abs(), base) - p as i64 + 1
}

/// The correctly rounded p-digit value of x: (units, exponent) with value units * B^exponent.
pub fn round_ref(x: &BigRational, base: u32, p: usize, mode: Mode) -> (BigInt, i64) {
    if x.is_zero() {
        return (BigInt::zero(), 0);
    }
    let e = ulp_exp(x, base, p);
    let t = x / pow_q(base, e);
    (round_units(&t, mode), e)
}

/// number of base-B digits of |n|
pub fn digits(n: &BigInt, base: u32) -> usize {
    if n.is_zero() {
        return 0;
    }
    n.magnitude().to_radix_le(base).len()
}

/// Check the documented rounding contract for a result `r` (exact value, flag, digit count) of an
/// operation whose true value is the exact rational `x`, at precision `p` (>= 1) in base `base` under `mode`.
pub fn check_contract(x: &BigRational, r: &BigRational, flag: Flag, r_digits: usize, base: u32, p: usize, mode: Mode) -> Result<(), (&'static str, String)> {
    if x.is_zero() {
        if r.is_zero() {
            return if flag == Flag::Exact { Ok(()) } else { Err(("flag_inexact_for_exact", format!("result equals the true value 0 but is flagged {:?}", flag))) };
        }
        return Err(("nonzero_for_zero", "true value is zero but the result is not".to_string()));
    }
    let e = ulp_exp(x, base, p);
    check_contract_gen(&|t: &BigRational| Some(t.cmp(x)), x.is_positive(), e, r, flag, r_digits, base, p, mode)
}

/// General form: the true value is only known through `cmp_true(t)` = ordering of `t` relative to
/// the true value (None = undecidable), its sign and the exponent `ulp_e` of its unit in the last place.
/// Err(("inconclusive", _)) is returned when a needed comparison is undecidable.
#[allow(clippy::too_many_arguments)]
pub fn check_contract_gen(
    cmp_true: &dyn Fn(&BigRational) -> Option<Ordering>,
    x_positive: bool,
    ulp_e: i64,
    r: &BigRational,
    flag: Flag,
    r_digits: usize,
    base: u32,
    p: usize,
    mode: Mode,
) -> Result<(), (&'static str, String)> {
    let und = || ("inconclusive", "comparison with the true value is undecidable at the oracle's precision".to_string());
    if r_digits > p + 1 {
        return Err(("too_many_digits", format!("result has {} digits at precision {}", r_digits, p)));
    }
    let c = cmp_true(r).ok_or_else(und)?;
    if c == Ordering::Equal {
        if flag != Flag::Exact {
            return Err(("flag_inexact_for_exact", format!("result equals the true value but is flagged {:?}", flag)));
        }
        return Ok(());
    }
    if flag == Flag::Exact {
        return Err(("flag_exact_for_inexact", format!("result differs from the true value but is flagged Exact (mode {})", mode.name())));
    }
    let ulp = pow_q(base, ulp_e);
    let above = c == Ordering::Greater;
    let larger_mag = above == x_positive;
    // representable true value?
    let k = (r / &ulp).floor().to_integer();
    for d in -1i32..=2 {
        let cand = BigRational::from_integer(&k + d) * &ulp;
        if cmp_true(&cand) == Some(Ordering::Equal) {
            return Err(("inexact_for_representable", format!("true value is representable in {} digits but the result differs", p)));
        }
    }
    // |r - x| < ulp
    let lo = cmp_true(&(r - &ulp)).ok_or_else(und)?;
    let hi = cmp_true(&(r + &ulp)).ok_or_else(und)?;
    if lo != Ordering::Less || hi != Ordering::Greater {
        return Err(("error_ge_1ulp", "|r - x| >= 1 ulp of the true value".to_string()));
    }
    match flag {
        Flag::AddOne if !above => return Err(("flag_sign", "flagged AddOne but r < x".to_string())),
        Flag::SubOne if above => return Err(("flag_sign", "flagged SubOne but r > x".to_string())),
        _ => {}
    }
    match mode {
        Mode::Zero if larger_mag => return Err(("wrong_side", "mode Zero but |r| > |x|".to_string())),
        Mode::Away if !larger_mag => return Err(("wrong_side", "mode Away but |r| < |x|".to_string())),
        Mode::Up if !above => return Err(("wrong_side", "mode Up but r < x".to_string())),
        Mode::Down if above => return Err(("wrong_side", "mode Down but r > x".to_string())),
        Mode::HalfEven | Mode::HalfAway => {
            let half = &ulp / BigRational::from_integer(BigInt::from(2));
            // r - half <= x <= r + half
            let l = cmp_true(&(r - &half)).ok_or_else(und)?;
            let h = cmp_true(&(r + &half)).ok_or_else(und)?;
            if l == Ordering::Greater || h == Ordering::Less {
                return Err(("error_gt_half_ulp", "|r - x| > 1/2 ulp in a round-to-nearest mode".to_string()));
            }
            if l == Ordering::Equal || h == Ordering::Equal {
                if mode == Mode::HalfAway {
                    if !larger_mag {
                        return Err(("tie", "tie not rounded away from zero in HalfAway".to_string()));
                    }
                } else {
                    let ru = r / &ulp;
                    if !ru.is_integer() || ru.to_integer().is_odd() {
                        return Err(("tie", "tie not rounded to even in HalfEven".to_string()));
                    }
                }
            }
        }
        _ => {}
    }
    Ok(())
}

pub fn ratio_f64(a: &BigRational, b: &BigRational) -> f64 {
    use num_traits::ToPrimitive;
    (a / b).to_f64().unwrap_or(f64::NAN)
}

pub fn selftest() -> Result<(), String> {
    // round_ref at p = 53, base 2, HalfEven must agree with hardware f64 rounding of n/d
    let mut r = crate::rng::Rng::new(0x5151);
    for _ in 0..2000 {
        let n = (r.u64() >> r.below(40)) as i64 - if r.bool() { 1 << 20 } else { 0 };
        let d = (r.u64() >> (1 + r.below(50))).max(1);
        if n == 0 {
            continue;
        }
        let q = BigRational::new(BigInt::from(n), BigInt::from(d));
        let (u, e) = round_ref(&q, 2, 53, Mode::HalfEven);
        let got = BigRational::from_integer(u) * pow_q(2, e);
        let hw = (n as f64) / (d as f64); // both exactly representable when < 2^53
        if (n.unsigned_abs() < (1 << 53)) && d < (1 << 53) {
            let hwq = BigRational::from_float(hw).unwrap();
            if hwq != got {
                return Err(format!("round_ref({}/{}) = {} but hardware division gives {}", n, d, got, hw));
            }
        }
    }
    // the six modes on +-2.5 and +-2.3
    let q = |n: i64, d: i64| BigRational::new(BigInt::from(n), BigInt::from(d));
    let exp: [(Mode, [i64; 4]); 6] = [
        (Mode::Zero, [2, -2, 2, -2]),
        (Mode::Away, [3, -3, 3, -3]),
        (Mode::Up, [3, -2, 3, -2]),
        (Mode::Down, [2, -3, 2, -3]),
        (Mode::HalfEven, [2, -2, 2, -2]),
        (Mode::HalfAway, [3, -3, 2, -2]),
    ];
    for (m, want) in exp {
        let got = [round_units(&q(5, 2), m), round_units(&q(-5, 2), m), round_units(&q(23, 10), m), round_units(&q(-23, 10), m)];
        for k in 0..4 {
            if got[k] != BigInt::from(want[k]) {
                return Err(format!("round_units mode {:?} case {} = {}", m, k, got[k]));
            }
        }
    }
    if round_units(&q(7, 2), Mode::HalfEven) != BigInt::from(4) {
        return Err("HalfEven 3.5".into());
    }
    Ok(())
}
