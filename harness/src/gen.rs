//! Structured operand generators. Magnitudes are little-endian `Vec<u64>` (64-bit limbs
//! independent of dashu's `Word`), possibly with leading zero limbs (exercises normalisation).
use crate::rng::Rng;

/// Lengths (in 64-bit limbs) biased towards representation and algorithm boundaries.
pub const BOUNDARY_LENS: &[usize] = &[
    0, 1, 1, 2, 2, 3, 3, 4, 5, 8, 15, 16, 17, 23, 24, 25, 26, 29, 30, 31, 32, 33, 34, 35, 48, 63, 64,
    65, 66, 70, 96, 97, 128, 190, 191, 192, 193, 194, 195, 256, 257, 299, 300, 301, 384, 385,
];

/// pick a length in limbs, max inclusive
pub fn len(r: &mut Rng, max: usize) -> usize {
    let l = match r.below(10) {
        0..=4 => *r.pick(BOUNDARY_LENS),
        5 | 6 => r.usize(6),
        7 => r.usize(40),
        8 => r.usize(max.min(400) + 1),
        _ => {
            // log-uniform up to max
            let bits = 64 - (max.max(1) as u64).leading_zeros() as u64;
            let b = r.below(bits + 1);
            (r.below(1u64 << b) as usize).min(max)
        }
    };
    l.min(max)
}

/// small lengths only (0..=6 limbs mostly), for histories and representation boundaries
pub fn small_len(r: &mut Rng) -> usize {
    match r.below(12) {
        0 => 0,
        1..=3 => 1,
        4..=6 => 2,
        7..=8 => 3,
        9 => 4,
        10 => r.usize(8),
        _ => r.usize(40),
    }
}

pub const N_SHAPES: u64 = 12;

/// magnitude of exactly `n` limbs (top limb may be anything incl. zero for some shapes)
/// Set by the monitors (not by the C19 digest worker, whose corpus must be identical in every build): operand
/// shapes may depend on the machine word size of the build.
pub static WORD_AWARE: std::sync::atomic::AtomicBool = std::sync::atomic::AtomicBool::new(false);

pub fn shape(r: &mut Rng, n: usize) -> Vec<u64> {
    if n == 0 {
        return vec![];
    }
    let s = r.below(N_SHAPES + 6);
    let mut v = vec![0u64; n];
    match s {
        0 => {
            // all ones
            for w in v.iter_mut() {
                *w = u64::MAX;
            }
        }
        1 => {
            // single bit
            let b = r.usize(n * 64);
            v[b / 64] = 1 << (b % 64);
        }
        2 => {
            // 2^k - 1
            let b = r.usize(n * 64) + 1;
            for i in 0..b {
                v[i / 64] |= 1 << (i % 64);
            }
        }
        3 => {
            // 2^k + 1
            let b = r.usize(n * 64);
            v[b / 64] = 1 << (b % 64);
            v[0] |= 1;
        }
        4 => {
            // sparse: few random words non-zero
            for _ in 0..(1 + r.usize(3)) {
                let i = r.usize(n);
                v[i] = r.word();
            }
            v[n - 1] |= r.word();
        }
        5 => {
            // alternating 0 / MAX
            let ph = r.usize(2);
            for (i, w) in v.iter_mut().enumerate() {
                *w = if i % 2 == ph { u64::MAX } else { 0 };
            }
            v[n - 1] |= 1;
        }
        6 => {
            // low words zero, random top
            let z = r.usize(n);
            for w in v.iter_mut().skip(z) {
                *w = r.u64();
            }
            v[n - 1] |= 1;
        }
        7 => {
            // low words MAX (carry chains), random top
            let z = r.usize(n);
            for (i, w) in v.iter_mut().enumerate() {
                *w = if i < z { u64::MAX } else { r.u64() };
            }
        }
        8 => {
            // top word special: 1, MAX, 2^63, 2^63-1, 2^32
            for w in v.iter_mut() {
                *w = r.u64();
            }
            v[n - 1] = *r.pick(&[1u64, u64::MAX, 1 << 63, (1 << 63) - 1, 1 << 32, 2, 3]);
        }
        9 => {
            // every word "interesting"
            for w in v.iter_mut() {
                *w = r.word();
            }
        }
        10 => {
            // 2^k - small
            let b = r.usize(n * 64) + 1;
            for i in 0..b {
                v[i / 64] |= 1 << (i % 64);
            }
            v[0] = v[0].wrapping_sub(r.below(3));
        }
        _ => {
            for w in v.iter_mut() {
                *w = r.u64();
            }
            if r.chance(1, 2) {
                v[n - 1] |= 1; // make sure exactly n limbs
            }
        }
    }
    // lengths are drawn in 64-bit limbs; in a build with 32-bit machine words half of the values get a top limb
    // below 2^32, so that odd word counts (15 words, 25 words, ...) are explored as often as even ones
    if dashu_int::Word::BITS == 32 && WORD_AWARE.load(std::sync::atomic::Ordering::Relaxed) && r.bool() {
        let t = v[n - 1] & 0xffff_ffff;
        v[n - 1] = if t == 0 { 1 } else { t };
    }
    v
}

/// magnitude with boundary-biased length up to `max` limbs
pub fn mag(r: &mut Rng, max: usize) -> Vec<u64> {
    let n = len(r, max);
    shape(r, n)
}

pub fn small_mag(r: &mut Rng) -> Vec<u64> {
    let n = small_len(r);
    shape(r, n)
}

/// number of significant limbs
pub fn nlimbs(v: &[u64]) -> usize {
    let mut n = v.len();
    while n > 0 && v[n - 1] == 0 {
        n -= 1;
    }
    n
}

/// size class label for coverage cells
pub fn size_class(n: usize) -> &'static str {
    match n {
        0 => "0",
        1 => "1",
        2 => "2",
        3 => "3",
        4..=24 => "4-24",
        25..=32 => "25-32",
        33..=192 => "33-192",
        193..=1000 => "193-1k",
        1001..=10000 => "1k-10k",
        _ => ">10k",
    }
}

pub static FULL_HEX: std::sync::atomic::AtomicBool = std::sync::atomic::AtomicBool::new(false);

pub fn hex(v: &[u64]) -> String {
    let n = nlimbs(v);
    if n == 0 {
        return "0x0".to_string();
    }
    if n > 12 && !FULL_HEX.load(std::sync::atomic::Ordering::Relaxed) {
        // abbreviated: length + fnv of contents + top and bottom limb
        let mut h = 0xcbf29ce484222325u64;
        for w in &v[..n] {
            h ^= *w;
            h = h.wrapping_mul(0x100000001b3);
        }
        return format!("<{} limbs top={:#x} low={:#x} fnv={:016x}>", n, v[n - 1], v[0], h);
    }
    let mut s = format!("0x{:x}", v[n - 1]);
    for w in v[..n - 1].iter().rev() {
        s.push_str(&format!("{:016x}", w));
    }
    s
}

pub fn hash_limbs(h: u64, v: &[u64]) -> u64 {
    let mut h = h ^ 0x9E3779B97F4A7C15;
    let n = nlimbs(v);
    for w in &v[..n] {
        h = (h ^ *w).wrapping_mul(0x100000001b3).rotate_left(23);
    }
    crate::rng::mix(h ^ n as u64)
}
