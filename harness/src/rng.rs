//! Deterministic PRNG (splitmix64-seeded xoshiro256**), no external crates.
#[derive(Clone)]
pub struct Rng {
    s: [u64; 4],
}

pub fn mix(mut z: u64) -> u64 {
    z = z.wrapping_add(0x9E3779B97F4A7C15);
    z = (z ^ (z >> 30)).wrapping_mul(0xBF58476D1CE4E5B9);
    z = (z ^ (z >> 27)).wrapping_mul(0x94D049BB133111EB);
    z ^ (z >> 31)
}

pub fn hash_str(s: &str) -> u64 {
    let mut h = 0xcbf29ce484222325u64;
    for b in s.bytes() {
        h ^= b as u64;
        h = h.wrapping_mul(0x100000001b3);
    }
    mix(h)
}

impl Rng {
    pub fn new(seed: u64) -> Self {
        let mut x = seed;
        let mut s = [0u64; 4];
        for v in s.iter_mut() {
            x = x.wrapping_add(0x9E3779B97F4A7C15);
            *v = mix(x);
        }
        Rng { s }
    }
    /// rng for case `idx` of property `prop` under `seed`
    pub fn for_case(seed: u64, prop: &str, idx: u64) -> Self {
        Rng::new(mix(seed ^ hash_str(prop)) ^ mix(idx.wrapping_mul(0x2545F4914F6CDD1D) ^ 0x1234567))
    }
    #[inline]
    pub fn u64(&mut self) -> u64 {
        let r = self.s[1].wrapping_mul(5).rotate_left(7).wrapping_mul(9);
        let t = self.s[1] << 17;
        self.s[2] ^= self.s[0];
        self.s[3] ^= self.s[1];
        self.s[1] ^= self.s[2];
        self.s[0] ^= self.s[3];
        self.s[2] ^= t;
        self.s[3] = self.s[3].rotate_left(45);
        r
    }
    #[inline]
    pub fn u32(&mut self) -> u32 {
        (self.u64() >> 32) as u32
    }
    /// uniform in 0..n (n > 0)
    #[inline]
    pub fn below(&mut self, n: u64) -> u64 {
        debug_assert!(n > 0);
        ((self.u64() as u128 * n as u128) >> 64) as u64
    }
    #[inline]
    pub fn usize(&mut self, n: usize) -> usize {
        self.below(n as u64) as usize
    }
    /// uniform in lo..=hi
    #[inline]
    pub fn range(&mut self, lo: i64, hi: i64) -> i64 {
        debug_assert!(lo <= hi);
        lo + self.below((hi - lo) as u64 + 1) as i64
    }
    #[inline]
    pub fn bool(&mut self) -> bool {
        self.u64() >> 63 == 1
    }
    /// true with probability num/den
    #[inline]
    pub fn chance(&mut self, num: u64, den: u64) -> bool {
        self.below(den) < num
    }
    pub fn pick<'a, T>(&mut self, xs: &'a [T]) -> &'a T {
        &xs[self.usize(xs.len())]
    }
    /// a u64 with "interesting" distribution: small, boundary, random of random bit length
    pub fn word(&mut self) -> u64 {
        match self.below(10) {
            0 => 0,
            1 => 1,
            2 => u64::MAX,
            3 => 1u64 << self.below(64),
            4 => (1u64 << self.below(64)).wrapping_sub(1),
            5 => self.below(16),
            6 => u64::MAX - self.below(4),
            7 => {
                let b = self.below(64) + 1;
                self.u64() >> (64 - b)
            }
            _ => self.u64(),
        }
    }
}
