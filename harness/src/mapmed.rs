//! A minimal self-describing, NON-human-readable decoding medium that presents structs as maps keyed by field
//! name (the way CBOR / MessagePack-with-names / serde_test's compact tokens do). postcard presents structs as
//! sequences and serde_json is human readable, so without this the `visit_map` halves of the serde
//! implementations are never executed (C19: the decoded number must not depend on the medium).
use serde::de::{self, DeserializeSeed, Deserializer, MapAccess, Visitor};
use serde::forward_to_deserialize_any;

#[derive(Clone, Debug)]
pub enum V {
    Bytes(Vec<u8>),
    I64(i64),
    U64(u64),
    Map(Vec<(&'static str, V)>),
}

pub type Error = de::value::Error;

pub struct De(pub V);

impl<'de> Deserializer<'de> for De {
    type Error = Error;
    fn deserialize_any<Vi: Visitor<'de>>(self, visitor: Vi) -> Result<Vi::Value, Error> {
        match self.0 {
            V::Bytes(b) => visitor.visit_byte_buf(b),
            V::I64(i) => visitor.visit_i64(i),
            V::U64(u) => visitor.visit_u64(u),
            V::Map(m) => visitor.visit_map(Fields { it: m.into_iter(), pending: None }),
        }
    }
    fn is_human_readable(&self) -> bool {
        false
    }
    forward_to_deserialize_any! {
        bool i8 i16 i32 i64 i128 u8 u16 u32 u64 u128 f32 f64 char str string bytes byte_buf option unit unit_struct
        newtype_struct seq tuple tuple_struct map struct enum identifier ignored_any
    }
}

struct Fields {
    it: std::vec::IntoIter<(&'static str, V)>,
    pending: Option<V>,
}

impl<'de> MapAccess<'de> for Fields {
    type Error = Error;
    fn next_key_seed<K: DeserializeSeed<'de>>(&mut self, seed: K) -> Result<Option<K::Value>, Error> {
        match self.it.next() {
            None => Ok(None),
            Some((k, v)) => {
                self.pending = Some(v);
                seed.deserialize(de::value::BorrowedStrDeserializer::new(k)).map(Some)
            }
        }
    }
    fn next_value_seed<S: DeserializeSeed<'de>>(&mut self, seed: S) -> Result<S::Value, Error> {
        match self.pending.take() {
            Some(v) => seed.deserialize(De(v)),
            None => Err(de::Error::custom("value without key")),
        }
    }
}

pub fn from_v<T: de::DeserializeOwned>(v: V) -> Result<T, Error> {
    T::deserialize(De(v))
}
