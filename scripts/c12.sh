#!/usr/bin/env bash
# C12: the property promises the log2 bounds "in both the std and no_std builds": the monitor runs in the ordinary
# build (std: f32::log2 based estimator) and is repeated at a third of the case count in a build of the dashu
# crates without the std feature (table-driven estimator). Evidence comes from the first run and records the second.
set -u
ROOT="${DVH_ROOT:-/verif}"
cd "$ROOT/harness" || exit 2
tier="${VERIF_TIER:-quick}"
args=("$@")
replay=0
for ((i=0;i<${#args[@]};i++)); do
  if [ "${args[$i]}" = "--tier" ]; then tier="${args[$((i+1))]}"; fi
  if [ "${args[$i]}" = "--replay" ]; then replay=1; fi
done
log="$ROOT/harness/target/build-c12-$$.log"
mkdir -p "$ROOT/harness/target"
if ! cargo build --offline --profile mon --bin c12 >"$log" 2>&1; then
  grep -E "^error" -A12 "$log" | head -40; echo "INCONCLUSIVE build failed (c12)"; exit 2
fi
if [ "$replay" = "1" ]; then
  rm -f "$log"
  # a replay file of the no_std repeat names its configuration
  if grep -q '"c12_config": "nostd"' "${args[$(( ${#args[@]} - 1 ))]}" 2>/dev/null; then
    cargo build --offline --profile mon --no-default-features --bin c12 --target-dir "$ROOT/harness/target/c19-w64-nostd" >/dev/null 2>&1 || { echo "INCONCLUSIVE no_std build failed"; exit 2; }
    exec "$ROOT/harness/target/c19-w64-nostd/mon/c12" "$@"
  fi
  exec "$ROOT/harness/target/mon/c12" "$@"
fi
"$ROOT/harness/target/mon/c12" "$@"; rc1=$?
if ! cargo build --offline --profile mon --no-default-features --bin c12 --target-dir "$ROOT/harness/target/c19-w64-nostd" >"$log" 2>&1; then
  grep -E "^error" -A12 "$log" | head -40; echo "INCONCLUSIVE no_std build failed (c12)"; exit 2
fi
rm -f "$log"
ns_root="$ROOT/harness/target/c12-nostd-root"
rm -rf "$ns_root"; mkdir -p "$ns_root/evidence" "$ns_root/harness/target" "$ns_root/replays"
cp "$ROOT/known_findings.jsonl" "$ns_root/known_findings.jsonl"
cases=100000; [ "$tier" = "thorough" ] && cases=2500000
out=$(DVH_ROOT="$ns_root" "$ROOT/harness/target/c19-w64-nostd/mon/c12" "$@" --cases $cases 2>&1); rc2=$?
echo "--- repeat in the build without the std feature (table-driven log2 estimator) ---"
echo "$out" | sed "s#$ns_root/replays#$ROOT/replays#g"
mkdir -p "$ROOT/replays"
for f in "$ns_root"/replays/*.json; do
  [ -f "$f" ] || continue
  python3 - "$f" "$ROOT/replays/$(basename "$f")" <<'PY'
import json, sys
b = json.load(open(sys.argv[1])); b["c12_config"] = "nostd"; json.dump(b, open(sys.argv[2], "w"), indent=1)
PY
done
python3 - "$ROOT/evidence/C12.json" "$ns_root/evidence/C12.json" "$rc2" <<'PY'
import json, sys
ev = json.load(open(sys.argv[1]))
try:
    rel = json.load(open(sys.argv[2]))
    ev["coverage"]["no_std_build_repeat"] = {"exit": int(sys.argv[3]), "evaluations": rel["coverage"]["evaluations"], "violations": rel.get("violations", 0), "per_operation": rel["coverage"].get("per_operation")}
    ev["violations"] = ev.get("violations", 0) + rel.get("violations", 0)
except Exception as e:
    ev["coverage"]["no_std_build_repeat"] = {"error": str(e)}
json.dump(ev, open(sys.argv[1], "w"), indent=1)
PY
rm -rf "$ns_root"
if [ $rc1 -ne 0 ]; then exit $rc1; fi
exit $rc2
