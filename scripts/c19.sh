#!/usr/bin/env bash
# C19: build-configuration matrix (word size x std x debug assertions): digest diff, in-process serde monitors, other monitors per configuration.
set -u
ROOT="${DVH_ROOT:-/verif}"
cd "$ROOT/harness" || exit 2
exec python3 "$ROOT/scripts/c19.py" "$@"
