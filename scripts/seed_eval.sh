#!/usr/bin/env bash
# seed_eval.sh <seeded/<dir>> <tier> <check ids...>
# Applies the seeded patch to /repo, runs the given checks, restores /repo. Prints one line per check.
# Must not run while any other check is running (they all build from /repo).
d="$(cd "$1" && pwd)"; tier="$2"; shift 2
cd "$(dirname "$0")/.." || exit 2
if [ -n "$(git -C /repo status --porcelain)" ]; then echo "REFUSING: /repo is not clean"; exit 2; fi
if ! git -C /repo apply "$d/patch.diff"; then echo "patch does not apply"; exit 2; fi
trap 'git -C /repo checkout -- . ; git -C /repo status --porcelain | head -3' EXIT
mkdir -p harness/target/seedruns
name=$(basename "$d")
for id in "$@"; do
  t0=$(date +%s)
  VERIF_SEED=${VERIF_SEED:-1} ./check "$id" --tier "$tier" > "harness/target/seedruns/$name-$id-$tier.log" 2>&1; rc=$?
  t1=$(date +%s)
  v=$(grep -c "^VIOLATION" "harness/target/seedruns/$name-$id-$tier.log")
  first=$(grep -m1 -E "^FAIL|^  FAIL" "harness/target/seedruns/$name-$id-$tier.log" | cut -c1-220)
  echo "SEED $name check=$id tier=$tier exit=$rc violations=$v wall=$((t1-t0))s :: $first"
done
