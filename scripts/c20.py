#!/usr/bin/env python3
"""C20 driver: literal macros build exactly the number that was written.

The proc macros only run inside the compiler, so every run *generates programs*: crates of macro
invocations over the literal grammar (seeded), compiled against /repo's working tree and executed.
Each invocation's value is compared with (1) the value this generator computed independently from
the digits it wrote (Python integers) and (2) what the run-time parser of the same tree returns for
the same text.  A second generated crate holds literals outside the grammar: every invocation must
produce a compile error (they are all expanded in one rustc run; diagnostics are mapped back to the
invocation by line); one that expands is evaluated and reported with the number it built.
The same programs are also built with 32-bit words (the static word-array selector picks another
array) and, in the thorough tier, executed under Miri (static constructors are unsafe code).

exit 0 held / 1 violation / 2 inconclusive
"""
import json, os, random, re, shutil, subprocess, sys, time
from fractions import Fraction
from math import gcd

ROOT = os.environ.get("DVH_ROOT", "/verif")
T = os.path.join(ROOT, "harness", "target")
GEN = os.path.join(ROOT, "gen")
REPO = "/repo"
args = sys.argv[1:]
tier = os.environ.get("VERIF_TIER", "quick")
seed = int(os.environ.get("VERIF_SEED", "1") or 1)
replay = None
i = 0
while i < len(args):
    if args[i] == "--tier":
        tier = args[i + 1]; i += 1
    elif args[i] == "--seed":
        seed = int(args[i + 1]); i += 1
    elif args[i] == "--replay":
        replay = args[i + 1]; i += 1
    i += 1

DIG = "0123456789abcdefghijklmnopqrstuvwxyz"


# ---------------------------------------------------------------- generator helpers
def to_radix(v, b):
    if v == 0:
        return "0"
    s = ""
    while v:
        s = DIG[v % b] + s
        v //= b
    return s


def rand_case(R, s):
    mode = R.randrange(4)
    if mode == 0:
        return s
    if mode == 1:
        return s.upper()
    return "".join(c.upper() if R.random() < 0.5 else c for c in s)


def underscores(R, s):
    """insert single underscores between digits now and then (never leading/trailing/doubled)"""
    if len(s) < 2 or R.random() < 0.5:
        return s
    out = s[0]
    for c in s[1:]:
        if R.random() < 0.15:
            out += "_"
        out += c
    return out


def magnitude(R):
    """values on both sides of the u32 const path, the double word and the multi-word static paths"""
    k = R.randrange(12)
    if k == 0:
        return R.choice([0, 1, 2, 7, 10, 255, 256, 65535, 65536])
    if k <= 2:
        return R.getrandbits(R.randrange(1, 33))
    if k == 3:
        return R.choice([2**31 - 1, 2**31, 2**32 - 2, 2**32 - 1, 2**32, 2**32 + 1, 2**33 - 1])
    if k == 4:
        e = R.choice([48, 63, 64, 65, 96, 127, 128, 129, 160, 191, 192, 193, 255, 256, 257, 320, 512, 1024])
        return 2**e + R.choice([-1, 0, 1])
    # byte-length driven (the static path packs little-endian bytes into u16/u32/u64 arrays)
    nbytes = R.choice([4, 5, 6, 7, 8, 9, 10, 11, 12, 13, 15, 16, 17, 23, 24, 25, 31, 32, 33, 40, 63, 64, 65, 100, 200]) if k < 10 else R.randrange(5, 130)
    top = R.choice([1, 0x7f, 0x80, 0xff, R.randrange(1, 256)])
    body = R.getrandbits(8 * (nbytes - 1)) if nbytes > 1 else 0
    pat = R.randrange(6)
    if pat == 0:
        body = 0
    elif pat == 1:
        body = (1 << (8 * (nbytes - 1))) - 1
    elif pat == 2:  # zero low bytes
        z = R.randrange(1, nbytes) * 8
        body = (body >> z) << z
    return (top << (8 * (nbytes - 1))) | body


def int_path(v, static):
    if static:
        return "static"
    return "const32" if v.bit_length() <= 32 else "heap"


def lexable_number_start(s):
    """s starts with a decimal digit: will rustc lex it as one literal token (digits + suffix)?"""
    t = s.replace("_", "")
    if len(t) >= 2 and t[0] == "0" and t[1] in "bBoOxX":
        return False
    m = re.match(r"^[0-9_]+", s)
    rest = s[m.end():]
    if rest[:1] in ("e", "E"):
        return False  # exponent marker: either an error or swallowed by the float literal
    return True


def raw_prefix_like_ok(s):
    """s looks like 0b.. / 0o.. / 0x..: will rustc lex it as ONE literal token (digits of that radix + suffix)?"""
    kind, rest = s[1].lower(), s[2:]
    allowed = {"b": "01", "o": "01234567", "x": "0123456789abcdefABCDEF"}[kind]
    m = re.match(r"^[0-9a-fA-F_]*" if kind == "x" else r"^[0-9_]*", rest)
    digits = m.group(0).replace("_", "")
    if not digits or any(ch not in allowed for ch in digits) or rest.startswith("_"):
        return False
    suffix = rest[m.end():]
    if kind != "x" and suffix[:1] in ("e", "E"):
        return False
    return re.fullmatch(r"[0-9A-Za-z_]*", suffix) is not None


def int_token(R, v, base, allow_plain_suffix=True):
    """digits of v in `base` as token text for the `<digits> base N` form; returns (token_text)"""
    digits = to_radix(v, base)
    if allow_plain_suffix and R.random() < 0.2:
        # leading zeros; when the next digit is b / o / x (bases above 11 / 24 / 33) the text LOOKS like a radix
        # prefix, but under an explicit `base N` every character is a digit of base N
        digits = "0" * R.randrange(1, 3) + digits
    s = underscores(R, rand_case(R, digits))
    if re.fullmatch(r"[0-9_]+", s):
        return s
    if allow_plain_suffix and len(s) >= 3 and s[0] == "0" and s[1] in "bBoOxX":
        return s if raw_prefix_like_ok(s) else "_" + s
    if s[0].isalpha():
        return s if R.random() < 0.8 else "_" + s
    if allow_plain_suffix and lexable_number_start(s) and "e" not in s.lower() and R.random() < 0.5:
        return s
    return "_" + s


def prefix_like(R):
    """(token text, base, value): a digit string of an explicit base whose first characters are 0b / 0o / 0x"""
    while True:
        kind, lo, dig = R.choice([("b", 12, "01"), ("o", 25, "01234567"), ("x", 34, "0123456789abcdef")])
        base = R.randrange(lo, 37)
        body = "".join(R.choice(dig) for _ in range(R.randrange(1, 12)))
        tail = "".join(R.choice("ghijklmnopqrstuvwxyz"[: max(0, base - 16)] or "0") for _ in range(R.randrange(0, 3)))
        if tail and not tail[0].isalpha():
            tail = ""
        if kind != "x" and tail[:1] in ("e", "E"):
            tail = ""
        text = "0" + rand_case(R, kind) + body + tail
        if raw_prefix_like_ok(text):
            return text, base, int(text, base)


def prefixed(R, v):
    b, p = R.choice([(2, "0b"), (8, "0o"), (16, "0x")])
    return p + underscores(R, rand_case(R, to_radix(v, b))), b


class Case(dict):
    pass


def gen_int(R, idx):
    signed = R.random() < 0.5
    static = R.random() < 0.4
    emb = R.random() < 0.25
    v = magnitude(R)
    neg = signed and R.random() < 0.5
    sign = "-" if neg else ("+" if signed and R.random() < 0.15 else "")
    form = R.randrange(3)
    base = None
    if form == 0:
        body = underscores(R, str(v))
    elif form == 1:
        body, _ = prefixed(R, v)
    else:
        base = R.randrange(2, 37)
        body = int_token(R, v, base)
        if R.random() < 0.12:
            body, base, v = prefix_like(R)
    tokens = sign + body + (" base %d" % base if base else "")
    macro = ("static_" if static else "") + ("ibig" if signed else "ubig")
    val = -v if neg else v
    return Case(idx=idx, kind="int", macro=macro, emb=emb, tokens=tokens, rt=sign + body, base=base, signed=signed,
                static=static, expect=("-" if val < 0 else "") + "%x" % abs(val), path=int_path(v, static),
                constctx=(not static and v.bit_length() <= 32 and R.random() < 0.3))


def strip_base(sig, b):
    """normalised (significand, shift): significand not divisible by b (0 -> (0, *))"""
    if sig == 0:
        return 0, 0
    k = 0
    while sig % b == 0:
        sig //= b
        k += 1
    return sig, k


def hex_frac_ok(fr):
    if not fr:
        return True
    if fr[0].isalpha():
        return True
    t = fr.replace("_", "")
    if t[:2] in ("0b", "0B", "0o", "0O", "0x", "0X") and t[:2] in ("0b",):
        return False
    m = re.match(r"^[0-9_]+", fr)
    rest = fr[m.end():]
    if rest[:1] in ("e", "E"):
        nxt = rest[1:2]
        return nxt.isdigit()
    return True


def gen_float(R, idx):
    decimal = R.random() < 0.45
    static = R.random() < 0.4
    emb = R.random() < 0.25
    neg = R.random() < 0.5
    sign = "-" if neg else ("+" if R.random() < 0.1 else "")
    # digit strings: integer part + fraction part, possibly with leading / trailing zeros
    if decimal:
        db, b = 10, 10
    elif R.random() < 0.5:
        db, b = 2, 2
    else:
        db, b = 16, 2
    ndig = R.choice([1, 2, 3, 5, 8, 9, 10, 11, 16, 17, 20, 33, 40, 64, 65, 80, 130]) if R.random() < 0.7 else R.randrange(1, 60)
    if db == 2:
        ndig = R.choice([1, 2, 5, 31, 32, 33, 40, 63, 64, 65, 100, 128, 129, 200]) if R.random() < 0.7 else R.randrange(1, 140)
    digits = "".join(R.choice(DIG[:db]) for _ in range(ndig))
    if R.random() < 0.12:
        # round numbers: one leading digit followed by zeros only (exact powers of the digit base and small multiples;
        # the normalisation of the parsed significand strips all of them)
        t = R.choice([1, 2, 4, 5, 8, 9, 10, 11, 13, 16, 17, 19, 20, 21, 27, 38, 40]) if R.random() < 0.7 else R.randrange(1, 60)
        digits = (R.choice(DIG[1:db]) if R.random() < 0.4 else "1") + "0" * t
        ndig = len(digits)
    z = R.randrange(5)
    if z == 0 and ndig > 2:
        digits = "0" * R.randrange(1, min(4, ndig)) + digits[3:] if ndig > 3 else digits
    if z == 1 and ndig > 2:
        k = R.randrange(1, ndig)
        digits = digits[:ndig - k] + "0" * k
    if digits[0] == "0" and db == 16 and R.random() < 0.5:
        digits = R.choice("123456789abcdef") + digits[1:]
    ndig = len(digits)
    fl = R.randrange(0, ndig) if R.random() < 0.7 else 0   # fraction length (at least one integer digit)
    ip, fp = digits[:ndig - fl], digits[ndig - fl:]
    has_exp = R.random() < 0.5
    exp = 0
    if has_exp:
        exp = R.choice([0, 1, -1, 5, -7, 63, -64, 127, -127, 1000, -1000, 100000, -100000]) if R.random() < 0.6 else R.randrange(-300, 300)
    # token text
    trick = ""      # the underscore that only exists to satisfy the Rust lexer (documented)
    if db == 10:
        ipt, fpt = underscores(R, ip), underscores(R, fp)
        body = ipt + ("." + fpt if fl else "")
        if has_exp:
            body += R.choice("eE") + (("+" if R.random() < 0.2 else "") if exp >= 0 else "") + str(exp)
        rt = sign + body
        tokens = rt
    elif db == 2:
        ipt, fpt = underscores(R, ip), underscores(R, fp)
        body = ipt + ("." + fpt if fl else "")
        if has_exp:
            body += R.choice("bB") + (("+" if R.random() < 0.2 else "") if exp >= 0 else "") + str(exp)
        rt = sign + body
        tokens = rt
        if has_exp and re.match(r"^[+-]?0[bB]", rt.replace("_", "")):
            # `0b-3` would read as a `0b` radix prefix without digits: write the zero twice
            body = "0" + body
            rt = sign + body
            tokens = rt
            ndig += 1
            digits = "0" + digits
    else:
        ipt, fpt = underscores(R, rand_case(R, ip)), underscores(R, rand_case(R, fp))
        for _ in range(50):
            if hex_frac_ok(fpt):
                break
            fpt = underscores(R, rand_case(R, fp))
        if not hex_frac_ok(fpt):
            fpt = "_" + fpt if False else fp.upper()
            if not hex_frac_ok(fpt):
                fl, fpt, ip = 0, "", digits
                ipt = rand_case(R, ip)
        # rustc refuses `0x12.34` ("hexadecimal float literal is not supported"): when the fraction starts
        # with a decimal digit the documented forms are `_0x12.34` (underscore dropped by the macro) or `0x12._34`
        need_trick = fl > 0 and fpt[0].isdigit()
        under_frac = need_trick and R.random() < 0.5
        if under_frac:
            fpt = "_" + fpt
        body = "0x" + ipt + ("." + fpt if fl else "")
        if has_exp:
            body += R.choice("pP") + (("+" if R.random() < 0.2 else "") if exp >= 0 else "") + str(exp)
        rt = sign + body
        if (need_trick and not under_frac) or R.random() < 0.3:
            tokens = sign + "_" + body     # documented lexer trick: one underscore prefix is dropped by the macro
        else:
            tokens = rt
    # expected value
    sig = int(digits, db)
    if db == 16:
        e = -4 * fl + exp
        prec = 4 * ndig
    else:
        e = -fl + exp
        prec = ndig
    sig, k = strip_base(sig, b)
    e = e + k if sig else 0
    if sig == 0:
        neg = False
    macro = ("static_" if static else "") + ("dbig" if decimal else "fbig")
    return Case(idx=idx, kind="float", macro=macro, emb=emb, tokens=tokens, rt=rt, base=None, fbase=b, static=static,
                expect="%s%x|%d|%d" % ("-" if neg else "", sig, e, prec),
                path=("static" if static and sig.bit_length() > 32 else "const32" if sig.bit_length() <= 32 else "heap"),
                constctx=(not static and sig.bit_length() <= 32 and R.random() < 0.3))


def gen_ratio(R, idx):
    static = R.random() < 0.4
    emb = R.random() < 0.25
    relaxed = R.random() < 0.4
    n, d = magnitude(R), magnitude(R)
    if d == 0:
        d = 1
    if R.random() < 0.3:     # common factors (reduction during parsing)
        g = R.choice([2, 4, 6, 10, 2**20, 3**5, 2**40 * 5])
        n, d = n * g, d * g
    nneg = R.random() < 0.5
    dneg = R.random() < 0.15
    has_den = R.random() < 0.85
    form = R.randrange(4)
    if not has_den:
        d = 1
        dneg = False
    base = None
    ns = "-" if nneg else ("+" if R.random() < 0.1 else "")
    ds = "-" if dneg else ("+" if R.random() < 0.05 else "")
    if form == 0:
        nb, dbody = underscores(R, str(n)), underscores(R, str(d))
    elif form == 1:
        b, p = R.choice([(2, "0b"), (8, "0o"), (16, "0x")])
        nb = p + underscores(R, rand_case(R, to_radix(n, b)))
        dbody = p + underscores(R, rand_case(R, to_radix(d, b)))
    elif form == 2:   # the prefix of the denominator can be omitted
        b, p = R.choice([(2, "0b"), (8, "0o"), (16, "0x")])
        nb = p + underscores(R, rand_case(R, to_radix(n, b)))
        dbody = int_token(R, d, b, allow_plain_suffix=False)
        if dbody.startswith("_"):
            # `_ff` after a prefixed numerator: the run-time parser sees the same text
            pass
    else:
        base = R.randrange(2, 37)
        nb, dbody = int_token(R, n, base), int_token(R, d, base)
        if R.random() < 0.15:
            if has_den and R.random() < 0.5:
                dbody, base, d = prefix_like(R)
                nb = int_token(R, n, base)
            else:
                nb, base, n = prefix_like(R)
                dbody = int_token(R, d, base)
    body = ns + nb + ("/" + ds + dbody if has_den else "")
    tokens = ("~" if relaxed else "") + body + (" base %d" % base if base else "")
    sn = -n if (nneg != dneg) else n
    if relaxed:
        if sn == 0:
            en, ed = 0, 1
        else:
            k = 0
            while (sn >> k) % 2 == 0 and (d >> k) % 2 == 0:
                k += 1
            en, ed = sn >> k, d >> k
    else:
        g = gcd(abs(sn), d)
        en, ed = (sn // g, d // g) if sn else (0, 1)
    macro = ("static_" if static else "") + "rbig"
    small = n.bit_length() <= 32 and d.bit_length() <= 32
    return Case(idx=idx, kind="ratio", macro=macro, emb=emb, tokens=tokens, rt=body, base=base, relaxed=relaxed, static=static,
                expect="%s%x/%x" % ("-" if en < 0 else "", abs(en), ed),
                path=("static" if static else "const32" if small else "heap"),
                constctx=(not static and small and R.random() < 0.3))


def gen_accept(R, n):
    cases = []
    for idx in range(n):
        k = R.randrange(10)
        c = gen_int(R, idx) if k < 4 else gen_float(R, idx) if k < 7 else gen_ratio(R, idx)
        cases.append(c)
    return cases


# ---------------------------------------------------------------- literals outside the grammar
def gen_reject(R, n):
    out = []
    for idx in range(n):
        v = magnitude(R) if R.random() < 0.5 else R.getrandbits(R.randrange(1, 40))
        w = R.getrandbits(R.randrange(1, 70)) + 1
        st = "static_" if R.random() < 0.35 else ""
        fam = R.randrange(24)
        why = ""
        if fam == 0:
            m, t, why = st + "ubig", "-%d" % v, "sign on an unsigned literal"
        elif fam == 1:
            m, t, why = st + "ubig", "+%d" % v, "sign on an unsigned literal"
        elif fam == 2:
            b = R.randrange(2, 10)
            d = to_radix(v + b, b)
            pos = R.randrange(len(d) + 1)
            d = d[:pos] + DIG[R.randrange(b, 10)] + d[pos:]
            m, t, why = st + R.choice(["ubig", "ibig"]), "%s base %d" % (d, b), "digit not below the radix"
        elif fam == 3:
            m, t, why = st + R.choice(["ubig", "ibig"]), "%d base %d" % (v, R.choice([0, 1, 37, 40, 64, 100, 256])), "radix outside 2..=36"
        elif fam == 4:
            m, t, why = st + R.choice(["ubig", "ibig", "rbig"]), "%d base" % v, "base keyword without a radix"
        elif fam == 5:
            m, t, why = st + R.choice(["ubig", "ibig", "rbig"]), "%d %d" % (v, w), "two literals"
        elif fam == 6:
            m, t, why = st + R.choice(["ubig", "ibig"]), "%d.%d" % (v, w), "fraction in an integer literal"
        elif fam == 7:
            m, t, why = st + R.choice(["ubig", "ibig"]), "%d base 10 %d" % (v, w), "tokens after the radix"
        elif fam == 8:
            m, t, why = st + R.choice(["ubig", "ibig"]), "%d, %d" % (v, w), "comma separated list"
        elif fam == 9:
            m, t, why = st + R.choice(["ubig", "ibig", "rbig", "dbig", "fbig"]), '"%d"' % v, "string literal"
        elif fam == 10:
            m, t, why = st + R.choice(["ubig", "ibig", "rbig"]), "(%d)" % v, "parenthesised group"
        elif fam == 11:
            m, t, why = st + "ibig", "%s%d" % (R.choice(["--", "-+", "+-", "- -"]), v), "two signs"
        elif fam == 12:
            m, t, why = st + "ibig", "%d-" % v, "sign after the digits"
        elif fam == 13:
            # a non-binary digit in a binary float
            d = to_radix(v | 1, 2)
            pos = R.randrange(len(d) + 1)
            d = d[:pos] + R.choice("23456789") + d[pos:]
            m, t, why = st + "fbig", (d + ".101") if R.random() < 0.5 else ("1." + d), "decimal digit in a binary float literal"
        elif fam == 14:
            m, t, why = st + "fbig", "0x%x.%xp" % (v, w) + R.choice(["", "-", "+"]), "exponent marker without digits"
            if re.search(r"\.[0-9_]+[eE]p", t) or re.search(r"\.0b", t):
                t = "0x%xp-" % v
            if not hex_frac_ok(t.split(".")[1] if "." in t else ""):
                t = "0x%xp-" % v
        elif fam == 15:
            m, t, why = st + "dbig", "%d.%d.%d" % (v, w, v), "two radix points"
        elif fam == 16:
            m, t, why = st + "dbig", "%d.%dz%d" % (v, w, v % 7), "letter in a decimal float"
        elif fam == 17:
            m, t, why = st + "dbig", "%d / %d" % (v, w), "fraction in a float macro"
        elif fam == 18:
            if R.random() < 0.5:
                m, t, why = st + "rbig", "%d/0" % v, "zero denominator"
            else:
                m, t, why = st + "rbig", R.choice(["%d/", "~%d/", "-%d/", "%d/ base 7"]) % v, "slash without a denominator"
        elif fam == 19:
            if R.random() < 0.5:
                m, t, why = st + "rbig", "%d/%d/%d" % (v, w, w), "two slashes"
            else:
                m, t, why = st + "rbig", R.choice(["%d -/%d", "%d - %d", "%d + /%d"]) % (v, w), "sign between numerator and slash"
        elif fam == 20:
            m, t, why = st + "rbig", R.choice(["~~%d/%d", "%d/~%d", "%d~/%d"]) % (v, w), "misplaced relaxed marker"
        elif fam == 21:
            m, t, why = st + "rbig", "0x%x/0b%s" % (v, to_radix(w, 2)), "numerator and denominator in different radices"
        elif fam == 22:
            m, t, why = st + "rbig", "%d.5/%d" % (v, w), "float numerator"
        else:
            m, t, why = st + "rbig", "%d/%d base %d" % (v, w, R.choice([0, 1, 37, 99])), "radix outside 2..=36"
        out.append(Case(idx=idx, kind="reject", macro=m, emb=(R.random() < 0.2), tokens=t, why=why))
    return out


# ---------------------------------------------------------------- program text
PRELUDE = r'''// generated by /verif/scripts/c20.py - do not edit
#![allow(unused_imports, non_upper_case_globals, clippy::all)]
use core::str::FromStr;
use dashu_float::{round::mode, DBig, FBig};
use dashu_int::{IBig, UBig, Word};
use dashu_ratio::{RBig, Relaxed};
type FBin = FBig<mode::Zero, 2>;

fn c(idx: usize, got: String, rt: String) { println!("{}\t{}\t{}", idx, got, rt); }
fn iu(v: &UBig) -> String {
    let w = v.as_words();
    let probe = v.clone() == *v && &(v + 1u8) - 1u8 == *v && (w.is_empty() || *w.last().unwrap() != 0);
    if probe { format!("{:x}", v) } else { format!("{:x}!probe", v) }
}
fn ii(v: &IBig) -> String {
    let probe = v.clone() == *v && &(v + 1i8) - 1i8 == *v && !(v.is_zero() && v.sign() == dashu_base::Sign::Negative);
    if probe { format!("{:x}", v) } else { format!("{:x}!probe", v) }
}
fn ff<R: dashu_float::round::Round, const B: Word>(v: &FBig<R, B>) -> String {
    format!("{:x}|{}|{}", v.repr().significand(), v.repr().exponent(), v.precision())
}
fn rq(v: &RBig) -> String { format!("{:x}/{:x}", v.numerator(), v.denominator()) }
fn rx(v: &Relaxed) -> String { format!("{:x}/{:x}", v.numerator(), v.denominator()) }
fn e<T, E: core::fmt::Debug>(r: Result<T, E>, f: impl Fn(&T) -> String) -> String { match r { Ok(v) => f(&v), Err(e) => format!("ERR:{:?}", e) } }
fn ru(t: &str, b: u32) -> String { if b == 0 { e(UBig::from_str_with_radix_prefix(t).map(|x| x.0), iu) } else { e(UBig::from_str_radix(t, b), iu) } }
fn ri(t: &str, b: u32) -> String { if b == 0 { e(IBig::from_str_with_radix_prefix(t).map(|x| x.0), ii) } else { e(IBig::from_str_radix(t, b), ii) } }
fn rf2(t: &str) -> String { e(FBin::from_str(t), ff) }
fn rf10(t: &str) -> String { e(DBig::from_str(t), ff) }
fn rrq(t: &str, b: u32) -> String { if b == 0 { e(RBig::from_str_with_radix_prefix(t).map(|x| x.0), rq) } else { e(RBig::from_str_radix(t, b), rq) } }
fn rrx(t: &str, b: u32) -> String { if b == 0 { e(Relaxed::from_str_with_radix_prefix(t).map(|x| x.0), rx) } else { e(Relaxed::from_str_radix(t, b), rx) } }
'''


def invocation(c):
    path = "dashu::" if c["emb"] else "dashu_macros::"
    return "%s%s!(%s)" % (path, c["macro"], c["tokens"])


def case_line(c):
    inv = invocation(c)
    b = c.get("base") or 0
    rt = json.dumps(c["rt"])
    k = c["kind"]
    static = c["static"]
    ref = "" if static else "&"
    if k == "int":
        fmt, ty, rtf = ("ii", "IBig", "ri") if c["signed"] else ("iu", "UBig", "ru")
        rtcall = "%s(%s, %d)" % (rtf, rt, b)
    elif k == "float":
        fmt = "ff"
        ty = "DBig" if c["fbase"] == 10 else "FBin"
        rtcall = ("rf10(%s)" if c["fbase"] == 10 else "rf2(%s)") % rt
    else:
        fmt, ty, rtf = ("rx", "Relaxed", "rrx") if c["relaxed"] else ("rq", "RBig", "rrq")
        rtcall = "%s(%s, %d)" % (rtf, rt, b)
    if c.get("constctx"):
        return "    { const V: %s = %s; c(%d, %s(&V), %s); }" % (ty, inv, c["idx"], fmt, rtcall)
    return "    c(%d, %s(%s%s), %s);" % (c["idx"], fmt, ref, inv, rtcall)


def write_crate(name, cases, reject=False):
    d = os.path.join(GEN, name)
    shutil.rmtree(d, ignore_errors=True)
    os.makedirs(os.path.join(d, "src"))
    open(os.path.join(d, "Cargo.toml"), "w").write('''[package]
name = "%s"
version = "0.0.0"
edition = "2021"
[dependencies]
dashu = { path = "%s", default-features = false, features = ["std"] }
dashu-base = { path = "%s/base" }
dashu-int = { path = "%s/integer" }
dashu-float = { path = "%s/float" }
dashu-ratio = { path = "%s/rational" }
dashu-macros = { path = "%s/macros" }
[workspace]
[profile.dev]
opt-level = 0
debug = 0
''' % (name, REPO, REPO, REPO, REPO, REPO, REPO))
    shutil.copy(os.path.join(REPO, "Cargo.lock"), os.path.join(d, "Cargo.lock"))
    os.makedirs(os.path.join(d, ".cargo"))
    open(os.path.join(d, ".cargo", "config.toml"), "w").write("[net]\noffline = true\n")
    lines = PRELUDE.splitlines()
    line_of = {}
    # functions of 200 cases each keep rustc's per-function work bounded
    per = 200
    nfun = (len(cases) + per - 1) // per
    for f in range(nfun):
        lines.append("fn part%d() {" % f)
        for c in cases[f * per:(f + 1) * per]:
            if reject:
                lines.append("    let _ = %s;" % invocation(c))
            else:
                lines.append(case_line(c))
            line_of[len(lines)] = c["idx"]
        lines.append("}")
    lines.append("fn main() {")
    for f in range(nfun):
        lines.append("    part%d();" % f)
    lines.append("}")
    open(os.path.join(d, "src", "main.rs"), "w").write("\n".join(lines) + "\n")
    return d, line_of


def cargo(d, sub, tdir, w32=False, miri=False, timeout=3600):
    flags = "--cfg dashu_verif"
    if w32:
        flags += ' --cfg force_bits="32"'
    extra = os.environ.get("DVH_EXTRA_RUSTFLAGS", "")
    env = dict(os.environ, CARGO_NET_OFFLINE="true", RUSTFLAGS=(flags + " " + extra).strip(), CARGO_TARGET_DIR=tdir)
    if miri:
        env["MIRIFLAGS"] = "-Zmiri-permissive-provenance"
        cmd = ["cargo", "+nightly", "miri", "run", "--offline"]
    else:
        cmd = ["cargo", sub, "--offline", "--message-format=json"]
    try:
        p = subprocess.run(cmd, cwd=d, env=env, capture_output=True, text=True, timeout=timeout)
        return p.returncode, p.stdout, p.stderr
    except subprocess.TimeoutExpired:
        return -999, "", "TIMEOUT"


def diagnostics(stdout):
    """error diagnostics of the generated main.rs: list of (line, message)"""
    out = []
    other = []
    for l in stdout.splitlines():
        if not l.startswith("{"):
            continue
        try:
            m = json.loads(l)
        except Exception:
            continue
        if m.get("reason") != "compiler-message":
            continue
        msg = m["message"]
        if msg.get("level") != "error":
            continue
        text = msg.get("message", "")
        if text.startswith("aborting due to") or text.startswith("could not compile"):
            continue
        # an error inside the dashu:: facade macro_rules points at /repo/src/lib.rs: follow the expansion
        # chain back to the invocation in the generated file
        lines_hit = []
        for sp in sorted(msg.get("spans", []), key=lambda x: not x.get("is_primary")):
            cur = sp
            while cur is not None:
                if cur.get("file_name", "").endswith("src/main.rs"):
                    lines_hit.append(cur["line_start"])
                    break
                ex = cur.get("expansion")
                cur = ex.get("span") if ex else None
        if lines_hit:
            out.append((lines_hit[0], text))
        else:
            other.append(text)
    return out, other


def exe_path(tdir, name):
    return os.path.join(tdir, "debug", name)


def evaluate(cases, name, tdir, w32=False, miri=False):
    """compile + run the accept crate; returns (results idx->(got, rt), rejected idx->msg, problems[])"""
    rejected = {}
    problems = []
    todo = list(cases)
    for _round in range(4):
        d, line_of = write_crate(name, todo)
        if miri:
            rc, out, err = cargo(d, "run", tdir, w32, miri=True, timeout=7200)
            if rc != 0 and "Undefined Behavior" not in err and "error: memory leaked" not in err and not out.strip():
                problems.append("miri did not run: " + err[-800:])
                return {}, rejected, problems, err
            res = parse_out(out)
            return res, rejected, problems, err
        rc, out, err = cargo(d, "build", tdir, w32)
        if rc == 0:
            break
        diags, other = diagnostics(out)
        if not diags:
            problems.append("build failed without a diagnostic in main.rs: " + (" | ".join(other) or err[-1500:]))
            return {}, rejected, problems, err
        for line, text in diags:
            idx = line_of.get(line)
            if idx is None:
                problems.append("compiler error outside the case lines (line %d): %s" % (line, text))
            else:
                rejected.setdefault(idx, text)
        if any("outside the case lines" in p for p in problems):
            return {}, rejected, problems, err
        todo = [c for c in todo if c["idx"] not in rejected]
    else:
        problems.append("still failing to compile after removing rejected cases")
        return {}, rejected, problems, ""
    try:
        p = subprocess.run([exe_path(tdir, name)], capture_output=True, text=True, timeout=1800)
    except subprocess.TimeoutExpired:
        problems.append("generated program timed out")
        return {}, rejected, problems, ""
    res = parse_out(p.stdout)
    if p.returncode != 0:
        problems.append("generated program died rc=%d after %d cases: %s" % (p.returncode, len(res), p.stderr[-600:]))
    return res, rejected, problems, p.stderr


def parse_out(text):
    res = {}
    for l in text.splitlines():
        f = l.split("\t")
        if len(f) == 3 and f[0].isdigit():
            res[int(f[0])] = (f[1], f[2])
    return res


OPEN_KF = {}
for _l in open(os.path.join(ROOT, "known_findings.jsonl")):
    _l = _l.strip()
    if _l:
        _k = json.loads(_l)
        if _k.get("property") == "C20" and _k.get("status") == "open":
            OPEN_KF[_k["id"]] = _k
KF_HITS = {}


def judge(c, got, rt):
    """None if fine, else text"""
    exp = c["expect"]
    # known finding (only honoured while known_findings.jsonl lists it as open): static float macros on the
    # static word-array path drop the precision (0 = unlimited); value, sign and exponent must still be right
    # and the run-time parser must still agree with the generator
    if ("KF-C20-static-float-precision" in OPEN_KF and c["kind"] == "float" and c["static"] and c["path"] == "static"
            and rt == exp and got != exp and got.rsplit("|", 1)[0] == exp.rsplit("|", 1)[0] and got.rsplit("|", 1)[1] == "0"):
        KF_HITS["KF-C20-static-float-precision"] = KF_HITS.get("KF-C20-static-float-precision", 0) + 1
        return None
    # known finding: a float literal whose value is zero gets precision 0 from every float macro (pinned by
    # macros/tests/float.rs), the run-time parser counts the written digits
    if ("KF-C20-zero-float-precision" in OPEN_KF and c["kind"] == "float" and exp.startswith("0|0|") and rt == exp and got == "0|0|0"):
        KF_HITS["KF-C20-zero-float-precision"] = KF_HITS.get("KF-C20-zero-float-precision", 0) + 1
        return None
    if c["kind"] == "ratio" and c.get("relaxed"):
        # Relaxed: equal value, positive denominator; representation must equal the run-time parser's
        def frac(s):
            a, b = s.split("/")
            return (int(a, 16), int(b, 16))
        try:
            gn, gd = frac(got.replace("!probe", ""))
            en, ed = frac(exp)
            if gd <= 0 or gn * ed != en * gd:
                return "macro built %s, the literal denotes %s" % (got, exp)
        except Exception:
            return "macro built %s (unparsable), the literal denotes %s" % (got, exp)
    elif got != exp:
        return "macro built %s, the literal denotes %s (sign hex significand|exponent|precision for floats)" % (got, exp)
    if rt != got:
        return "macro built %s but the run-time parser returns %s for the same text" % (got, rt)
    return None


def short(c):
    return {k: c[k] for k in ("macro", "tokens", "emb", "expect", "path") if k in c}


def write_replay(body, tag):
    os.makedirs(os.path.join(ROOT, "replays"), exist_ok=True)
    path = os.path.join(ROOT, "replays", "C20-%s-s%d-%s.json" % (tier, seed, tag))
    json.dump(body, open(path, "w"), indent=1)
    return path


def run_reject(cases, name, tdir, w32=False):
    """returns (accepted cases with the value they built, n_rejected, messages histogram, problems)"""
    d, line_of = write_crate(name, cases, reject=True)
    rc, out, err = cargo(d, "check", tdir, w32)
    diags, other = diagnostics(out)
    problems = []
    hit = {}
    for line, text in diags:
        idx = line_of.get(line)
        if idx is None:
            problems.append("compiler error outside the case lines (line %d): %s" % (line, text))
        else:
            hit.setdefault(idx, text)
    if rc == 0 and cases:
        pass  # everything expanded: all accepted
    elif not diags:
        problems.append("reject crate failed without diagnostics: " + (" | ".join(other) or err[-1000:]))
    hist = {}
    for t in hit.values():
        key = re.sub(r"[0-9]+", "#", t)[:90]
        hist[key] = hist.get(key, 0) + 1
    accepted = [c for c in cases if c["idx"] not in hit]
    return accepted, len(hit), hist, problems


def value_of_accepted(accepted, name, tdir, w32=False):
    """build a tiny program that prints what an unexpectedly accepted literal evaluates to"""
    lines = PRELUDE.splitlines() + ["fn main() {"]
    for c in accepted:
        inv = invocation(c)
        m = c["macro"].replace("static_", "")
        st = c["macro"].startswith("static_")
        fmt = {"ubig": "iu", "ibig": "ii", "fbig": "ff", "dbig": "ff"}.get(m)
        ref = "" if st else "&"
        if m == "rbig":
            lines.append('    println!("%d\\t{:?}\\t-", %s%s);' % (c["idx"], ref, inv))
        else:
            lines.append('    c(%d, %s(%s%s), String::new());' % (c["idx"], fmt, ref, inv))
    lines.append("}")
    d, _ = write_crate(name, [])
    open(os.path.join(d, "src", "main.rs"), "w").write("\n".join(lines) + "\n")
    rc, out, err = cargo(d, "build", tdir, w32)
    if rc != 0:
        return {}
    p = subprocess.run([exe_path(tdir, name)], capture_output=True, text=True, timeout=600)
    return parse_out(p.stdout)


# ---------------------------------------------------------------- replay
if replay:
    body = json.load(open(replay))
    cases = [Case(c) for c in body["cases"]]
    w32 = body.get("w32", False)
    tdir = os.path.join(T, "c20-w32" if w32 else "c20")
    bad = False
    if body["kind"] == "accept":
        res, rejected, problems, err = evaluate(cases, "c20replay", tdir, w32, miri=body.get("miri", False))
        for c in cases:
            if c["idx"] in rejected:
                print("NOTE %s is inside the grammar but does not compile: %s" % (invocation(c), rejected[c["idx"]]))
            elif c["idx"] in res:
                j = judge(c, *res[c["idx"]])
                if j:
                    print("FAIL %s: %s" % (invocation(c), j)); bad = True
                else:
                    print("ok   %s = %s" % (invocation(c), res[c["idx"]][0]))
            else:
                print("FAIL %s: no output (%s)" % (invocation(c), "; ".join(problems)[:600])); bad = True
        if body.get("miri") and ("Undefined Behavior" in err or "memory leaked" in err):
            print(err[-3000:]); bad = True
    else:
        accepted, nrej, hist, problems = run_reject(cases, "c20replay", tdir, w32)
        vals = value_of_accepted(accepted, "c20replayv", tdir, w32) if accepted else {}
        for c in accepted:
            print("FAIL %s is outside the grammar (%s) but expands to %s" % (invocation(c), c["why"], vals.get(c["idx"], ("?",))[0])); bad = True
        if not accepted:
            print("ok   all %d literals are compile errors" % nrej)
    if bad:
        print("VIOLATION property=C20 replay=%s" % replay); sys.exit(1)
    sys.exit(0)

# ---------------------------------------------------------------- run
t0 = time.time()
os.makedirs(GEN, exist_ok=True)
R = random.Random(seed * 1000003 + (1 if tier == "quick" else 2))
n_accept = 2400 if tier == "quick" else 20000
n_reject = 600 if tier == "quick" else 5000
n_w32 = 800 if tier == "quick" else 6000
n_miri = 0 if tier == "quick" else 500
cases = gen_accept(R, n_accept)
rej = gen_reject(R, n_reject)

violations = []   # (text, replay body, tag)
inconclusive = []
notes = []
cells_ok = {}
stats = {"by_macro": {}, "by_path": {}, "const_context": 0, "embedded": 0}
for c in cases:
    stats["by_macro"][c["macro"]] = stats["by_macro"].get(c["macro"], 0) + 1
    key = c["kind"] + ":" + c["path"]
    stats["by_path"][key] = stats["by_path"].get(key, 0) + 1
    stats["const_context"] += 1 if c.get("constctx") else 0
    stats["embedded"] += 1 if c["emb"] else 0


def run_accept(label, subset, tdir, w32=False, miri=False):
    res, rejected, problems, err = evaluate(subset, "c20acc", tdir, w32, miri)
    n_ok = 0
    for p in problems:
        inconclusive.append("[%s] %s" % (label, p))
    if miri and ("Undefined Behavior" in err or "memory leaked" in err):
        violations.append(("[%s] Miri reports undefined behaviour / a leak in the expansion of the generated literals:\n%s" % (label, err[-1500:]),
                           {"kind": "accept", "cases": subset, "w32": w32, "miri": True}, "miri"))
    for c in subset:
        idx = c["idx"]
        if idx in rejected:
            # the property speaks about accepted literals: a literal of the documented grammar that does not
            # compile is not a wrong number. It is reported and costs coverage (see the cell check below).
            notes.append("[%s] %s is inside the documented grammar but does not compile: %s" % (label, invocation(c)[:200], rejected[idx][:200]))
        elif idx in res:
            j = judge(c, *res[idx])
            if j:
                violations.append(("[%s] %s: %s" % (label, invocation(c)[:400], j[:600]), {"kind": "accept", "cases": [c], "w32": w32}, "%s-i%d" % (label, idx)))
            else:
                n_ok += 1
                cells_ok[(label, c["kind"] + ":" + c["path"])] = cells_ok.get((label, c["kind"] + ":" + c["path"]), 0) + 1
        elif not problems:
            inconclusive.append("[%s] case %d produced no output" % (label, idx))
    return n_ok, len(rejected)


cov = {}
n_ok, n_rej = run_accept("w64", cases, os.path.join(T, "c20"))
cov["w64"] = {"invocations": len(cases), "agree_with_generator_and_runtime_parser": n_ok, "rejected_by_compiler": n_rej}
sub32 = cases[:n_w32]
n_ok32, n_rej32 = run_accept("w32", sub32, os.path.join(T, "c20-w32"), w32=True)
cov["w32"] = {"invocations": len(sub32), "agree_with_generator_and_runtime_parser": n_ok32, "rejected_by_compiler": n_rej32}
if n_miri:
    subm = [c for c in cases if c["static"] or c["path"] == "heap"][:n_miri]
    n_okm, _ = run_accept("miri", subm, os.path.join(T, "c20-miri"), miri=True)
    cov["miri"] = {"invocations": len(subm), "agree_with_generator_and_runtime_parser": n_okm}

# required coverage: every (macro family, code-generator path) cell must have been observed agreeing
for label, subset in (("w64", cases), ("w32", sub32)):
    want = {c["kind"] + ":" + c["path"] for c in subset}
    for cell in sorted(want):
        if cells_ok.get((label, cell), 0) == 0 and not any(v[2].startswith(label) for v in violations):
            inconclusive.append("[%s] no literal of cell %s was accepted and evaluated (coverage lost)" % (label, cell))

# literals outside the grammar
accepted, n_rejected, hist, problems = run_reject(rej, "c20rej", os.path.join(T, "c20"))
for p in problems:
    inconclusive.append("[reject] " + p)
if accepted and not problems:
    vals = value_of_accepted(accepted, "c20rejv", os.path.join(T, "c20"))
    for c in accepted[:40]:
        violations.append(("%s is outside the grammar (%s) but expands to the number %s" % (invocation(c), c["why"], vals.get(c["idx"], ("?",))[0]),
                           {"kind": "reject", "cases": [c]}, "rej-i%d" % c["idx"]))
fam = {}
for c in rej:
    fam[c["why"]] = fam.get(c["why"], 0) + 1
cov["reject"] = {"invocations": len(rej), "compile_errors": n_rejected, "expanded": len(accepted), "families": fam, "diagnostics": hist}

distinct = len({(c["macro"], c["tokens"]) for c in cases if c["expect"] not in ("0", "1", "0|0|1", "0/1")})
ev = {
    "property_id": "C20", "tier": tier, "seed": seed, "level": "exploration",
    "coverage": {
        "evaluations": sum(v.get("invocations", 0) for v in cov.values()),
        "distinct_nontrivial": distinct,
        "rule": "seeded generator over the documented literal grammar (prefixes, `base N` incl. leading zeros and digit strings that look like a radix prefix (`0b1 base 16`), signs, underscores, letter case, binary / hex-float / decimal floats with exponents, fractions, ~), magnitudes on both sides of the u32 const path, the double word and multi-word static word arrays; each invocation is compiled against the working tree and its value compared with the generator's own arithmetic and with the run-time parser; distinct_nontrivial = distinct (macro, token text) pairs whose value is not 0 or 1",
        "samples": [short(c) for c in cases[:12]] + [{"macro": c["macro"], "tokens": c["tokens"], "outside_grammar": c["why"]} for c in rej[:6]],
        "generated_programs": cov,
        "accept_cases_by_macro": stats["by_macro"],
        "accept_cases_by_code_generator_path": stats["by_path"],
        "const_context_invocations": stats["const_context"],
        "through_dashu_facade_macros": stats["embedded"],
        "inconclusive": inconclusive[:20],
        "in_grammar_literals_that_do_not_compile": notes[:20],
        "cells_observed_agreeing": {"%s %s" % k: v for k, v in sorted(cells_ok.items())},
        "known_finding_hits": KF_HITS,
    },
    "assumptions": [
        "expected values are computed by this generator with Python integers from the digits it wrote",
        "the grammar is the one documented in macros/docs/*.md; grey-zone texts (underscore-only, decimal prefix forms) are not generated",
        "rustc's Literal/Ident to_string returns the source text of a token (reconstruction used by the macros)",
    ],
    "wall_s": round(time.time() - t0, 1),
    "violations": len(violations),
}
os.makedirs(os.path.join(ROOT, "evidence"), exist_ok=True)
json.dump(ev, open(os.path.join(ROOT, "evidence", "C20.json"), "w"), indent=1)
for kid, k in OPEN_KF.items():
    print("%s [%s hits=%d]" % (k["line"], kid, KF_HITS.get(kid, 0)))
print("C20 tier=%s seed=%d accept=%d (w32 %d, miri %d) reject=%d compile_errors=%d distinct_nontrivial=%d violations=%d inconclusive=%d wall=%.1fs" % (
    tier, seed, len(cases), len(sub32), n_miri, len(rej), n_rejected, distinct, len(violations), len(inconclusive), time.time() - t0))
print("  paths: " + ", ".join("%s=%d" % kv for kv in sorted(stats["by_path"].items())))
for nline in notes[:10]:
    print("NOTE " + nline)
if violations:
    for txt, body, tag in violations[:12]:
        print("FAIL " + txt)
        print("VIOLATION property=C20 replay=%s" % write_replay(body, tag))
    sys.exit(1)
if inconclusive:
    for x in inconclusive[:10]:
        print("INCONCLUSIVE " + x[:1500])
    sys.exit(2)
sys.exit(0)
