#!/usr/bin/env python3
"""seed_store.py <Cxx> <n> <confirm-output-file> [src_dir] [stored_number] : store a confirmed seeded change under /verif/seeded/<Cxx>-<n>/"""
import json, os, shutil, sys
pid, n, conf = sys.argv[1], sys.argv[2], sys.argv[3]
src = sys.argv[4] if len(sys.argv) > 4 else f"/tmp/wt-{pid}/_seed"
dn = sys.argv[5] if len(sys.argv) > 5 else n
out = open(conf).read()
if "CONFIRMED" not in out.splitlines()[-1:][0] or "NOT-CONFIRMED" in out:
    print("not confirmed:", out[-400:]); sys.exit(1)
dst = f"/verif/seeded/{pid}-{dn}"
shutil.rmtree(dst, ignore_errors=True)
os.makedirs(dst)
shutil.copy(f"{src}/patch{n}.diff", f"{dst}/patch.diff")
shutil.copytree(f"{src}/demo{n}", f"{dst}/demo", ignore=shutil.ignore_patterns("target", "Cargo.lock"))
notes = open(f"{src}/notes{n}.md").read() if os.path.exists(f"{src}/notes{n}.md") else ""
open(f"{dst}/notes.md", "w").write(notes)
files = [l[6:] for l in open(f"{dst}/patch.diff") if l.startswith("+++ b/")]
meta = {
    "property": pid,
    "seeded_by": "fresh sub-agent given only the property text and a private worktree of /repo",
    "files_changed": [f.strip() for f in files],
    "needs_to_manifest": "see notes.md (author's description); summary filled in below",
    "confirmation": {
        "script": "scripts/seed_confirm.sh (scratch worktree of /repo under /tmp, removed afterwards)",
        "ran": ["demo on the clean tree: cargo run --offline (exit 0 required)",
                "git apply patch.diff; cargo nextest run --workspace --no-fail-fast --test-threads 8 --offline (365 passed required)",
                "demo with the patch applied (non-zero exit required)"],
        "result": out.strip().splitlines()[-2:],
    },
    "checks": {},
}
json.dump(meta, open(f"{dst}/meta.json", "w"), indent=1)
print("stored", dst)
