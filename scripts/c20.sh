#!/usr/bin/env bash
# C20: generated macro-invocation programs compiled against the working tree (accept + compile-fail crates, 64/32-bit words, Miri).
set -u
ROOT="${DVH_ROOT:-/verif}"
cd "$ROOT/harness" || exit 2
exec python3 "$ROOT/scripts/c20.py" "$@"
