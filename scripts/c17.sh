#!/usr/bin/env bash
# C17: native history monitor + Miri (quick & thorough) + AddressSanitizer/LeakSanitizer + valgrind memcheck (thorough).
# Invoked by ./check C17 [--tier quick|thorough] [--replay file]; environment prepared by ./check.
set -u
ROOT="${DVH_ROOT:-/verif}"
cd "$ROOT/harness" || exit 2
exec python3 "$ROOT/scripts/c17.py" "$@"
