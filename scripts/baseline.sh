#!/usr/bin/env bash
# Runs the repository's pinned suite with the verification guard OFF and prints the summary line.
cd /repo && unset RUSTFLAGS && CARGO_NET_OFFLINE=true cargo nextest run --workspace --no-fail-fast --test-threads 8 --offline 2>&1 | grep -E "Summary|FAIL|error" | head -20
