#!/usr/bin/env bash
# seed_rn.sh <worktree prefix, e.g. /tmp/w3-> <Cxx> <number offset> : confirm the changes 1, 2 delivered for Cxx and store them as Cxx-(offset+n)
pre="$1"; p="$2"; off="$3"
for n in 1 2; do
  [ -f $pre$p/_seed/patch$n.diff ] || { echo "$p-$n: no patch"; continue; }
  /verif/scripts/seed_confirm.sh $pre$p/_seed $n rn$p > /tmp/cfn-$p-$n.out 2>&1
  if tail -1 /tmp/cfn-$p-$n.out | grep -q "^CONFIRMED"; then python3 /verif/scripts/seed_store.py $p $n /tmp/cfn-$p-$n.out $pre$p/_seed $((n+off)); else echo "$p-$n NOT CONFIRMED: $(tail -3 /tmp/cfn-$p-$n.out | tr '\n' ' ')"; fi
done
