#!/usr/bin/env python3
"""Regenerates /verif/MANIFEST.json from the table below (keeps it valid at all times)."""
import json, os, subprocess, sys
ROOT = os.path.dirname(os.path.dirname(os.path.abspath(__file__)))

# property -> (technique, level text, level note, design ref)
P = {
 "C01": ("differential runtime monitor: num-bigint reference model + storage-layout invariant hook over structured random/directed operands",
         "Runtime monitoring: millions of add/sub/mul/sqr/cubic/pow executions of the real code (every ownership form, UBig/IBig/mixed/primitive operands, sizes on both sides of the inline/heap and schoolbook/Karatsuba/Toom-3 thresholds) each compared in full with an independent bignum model; site counters prove which multiplication strategy produced each observed result. Held on the executions observed, not a proof.",
         "Trusts num-bigint 0.4 arithmetic and dashu's as_words()/from_words() accessors (cross-checked against to_le_bytes).", "DESIGN.md §4 C01"),

 "C02": ("differential runtime monitor: num-bigint div_rem reference + identity a=q*b+r re-evaluated by model multiplication, all division forms cross-checked",
         "Runtime monitoring of every division form (/, %, div_rem, Euclidean forms, div_rem_assign, mixed UBig/IBig, primitive divisors/dividends, ConstDivisor) on divisor classes and crafted q*b+r dividends around the word/dword/32-word thresholds; zero divisors must panic. Held on the executions observed.",
         "Trusts num-bigint division only for the expected value; identity, remainder range and sign are re-derived with multiplication.", "DESIGN.md §4 C02"),
 "C09": ("differential runtime monitor: num-bigint two's-complement BigInt reference (floor shift) over boundary bit positions",
         "Runtime monitoring of & | ^ ! << >>, bit/set_bit/clear_bit, trailing_zeros/ones, count_ones/zeros, bit_len, split_bits, clear_high_bits, power-of-two helpers and UBig::ones with operands of exactly 0..3 limbs, all-ones / zero-low-limb patterns and positions 0,1,63,64,65,k*64, at and beyond the length; mixed and primitive forms compared with 'convert both to IBig'.",
         "Trusts num-bigint's BigInt bit operators (self-tested on small values).", "DESIGN.md §4 C09"),
 "C12": ("runtime monitor evaluating defining inequalities with model powers, num-bigint gcd, and an own interval-arithmetic log2 enclosure",
         "Runtime monitoring of gcd/gcd_ext (Bezout identity), sqrt/cbrt/nth_root (+_rem), ilog, remove and log2_bounds (big integers, rationals, floats, every u8/u16 exhaustively, random wider primitives and f32/f64 patterns); inputs built by reverse Euclid (maximal Lehmer steps, oversized quotients), perfect powers +-1, base^e +-1; log2 bounds decided by a 96..512-bit outward-rounded enclosure (undecided cases are counted inconclusive).",
         "Trusts num-bigint gcd/pow and the harness' own interval ln (self-tested against f64::ln each run; validated against mpmath during development).", "DESIGN.md §4 C12"),

 "C07": ("differential runtime monitor: num-bigint radix/byte reference, grammar-based sentence generator with mutations, pad_integral reference layout validated against format! on primitives",
         "Runtime monitoring of printing in all 35 radices, parse round trips of decorated strict-grammar sentences, rejection of mutated sentences, no-panic on arbitrary strings, 180 literal format specs x run-time widths against a reference layout, two's-complement byte import/export and bit-chunk round trips, with value sizes on both sides of the per-word / 16-word / 256-word converter thresholds.",
         "Trusts num-bigint to_str_radix/parse_bytes/from_signed_bytes_le and Rust's primitive formatting (reference layout is self-tested against it each run).", "DESIGN.md §4 C07"),
 "C13": ("differential runtime monitor: num-bigint mod_floor/modpow/gcd reference for every ring operation and the Reducer facade",
         "Runtime monitoring of reduce, + - * neg dbl sqr pow inv / (all ownership forms) over moduli 1, 2^k, one word (shift 0 and > 0), two words, many words, with operands of both signs up to 3x the modulus length, crafted non-invertible elements, multi-word exponents, mixing of ConstDivisor instances (must panic) and the num_modular::Reducer facade.",
         "Trusts num-bigint modular arithmetic.", "DESIGN.md §4 C13"),

 "C05": ("runtime monitor: 'same value by many routes' metamorphic oracle + model ordering + canonical-layout hook + fixed-key hashing",
         "Runtime monitoring: one mathematical value is produced through ~30 constructors/arithmetic paths/clone_from hosts (UBig), sign routes (IBig), non-reduced / signed-denominator / arithmetic / parse routes (RBig, Relaxed twins) and precision/mode/trailing-zero variants (FBig, with infinities); every pair must be ==, cmp Equal, hash-equal and canonically laid out, and routes of a neighbouring value must order like the exact model.",
         "Trusts num-bigint/num-rational ordering and std DefaultHasher.", "DESIGN.md §4 C05"),
 "C15": ("metamorphic runtime monitor: macro-generated call forms of each operation are each other's oracle (value or panic)",
         "Runtime monitoring of ~2000 generated (operation, form) pairs: ownership forms, compound assignment, 12 primitive types on either side, UBig/IBig mixes, trait-method vs operator forms, ConstDivisor forms, shift forms, FBig operators vs Context methods for four mode/base instantiations, RBig/Relaxed forms with integer operands, Reduced forms, and clone/clone_from independence.",
         "One designated form of each operation is checked against the exact model by C01-C04/C09/C13; agreement transfers correctness.", "DESIGN.md §4 C15"),
 "C17": ("sanitizer family: Miri (UB/provenance/leak/data-race interpreter) on operation histories, AddressSanitizer+LeakSanitizer and valgrind memcheck on the same history code and on the C01/C02/C07/C09/C12/C13 workloads, plus native histories with layout-invariant hook, shadow model, buffer-sharing check and counting allocator",
         "Runtime monitoring under sanitizers: histories over a pool of live integers (construction, in-place and by-reference arithmetic with self-aliasing, clone_from for all size relations, take/replace/drop, shifts across the inline/heap boundary, word/byte/chunk round trips, static-word values) run natively (millions of steps: invariant hook after every step, allocator balance after every history), under Miri (quick and thorough), and in the thorough tier under ASan/LSan and memcheck including Karatsuba/Toom-3/divide-and-conquer scratch-memory sizes.",
         "Miri runs with -Zmiri-permissive-provenance (the bump allocator casts integers to pointers), so provenance inside integer/src/memory.rs is only covered spatially by ASan/memcheck; sanitizers see only what the histories reach.", "DESIGN.md §4 C17"),

 "C03": ("runtime monitor: exact-rational oracle + rounding-contract checker (ulp of the true value, mode side, flag truthfulness, tie rules), sqrt judged through squares",
         "Runtime monitoring of Context::add/sub/mul/div/sqrt/sqr/cubic/inv for 6 modes x 6 bases x precisions 1..1000 with operands shaped after the addition algorithm's own case split (equal/overlapping/near-p/far exponents, cancellations, carries, short operands), exact and random quotients, perfect squares +-1; every result is judged against the exact rational value by the documented contract.",
         "ulp is taken from the true value (weakest reading); num-rational arithmetic is exact.", "DESIGN.md §4 C03"),
 "C06": ("differential runtime monitor: exact-rational sources against an independent IEEE-754 reference (all six modes, subnormals, overflow) that is self-tested against hardware casts/division; exactness oracles for every From/TryFrom",
         "Runtime monitoring of primitive<->big integer conversions (all widths, limits), integer/rational/float -> f32/f64 (bit-exact with flags and error signs), f32/f64 -> integers/rationals/binary floats (exact or refused), RBig::to_float contract, FBig<->integer/primitive conversions and f32/f64 encode/decode (thorough: all 2^32 binary32 patterns).",
         "Trusts hardware IEEE arithmetic only to self-test the reference; refusing a representable value is an error only where documentation is unambiguous.", "DESIGN.md §4 C06"),
 "C10": ("runtime monitor: textbook definition of the six modes over exact rationals; exhaustive small grid for the public rounding primitives",
         "Runtime monitoring of FBig trunc/floor/ceil/round/fract/split_at_point/to_int/with_precision and Repr::to_int (6 modes x 4 bases, values from integers to far below 1/B), RBig/Relaxed rounding, and Round::round_fract/round_ratio: exhaustive over bases 2/3/10/16 x 1..3 fraction digits x integer -4..4 x every numerator x 6 modes, plus random triples with fractions at/around one half up to 20000-digit precisions.",
         "Ties in round() are away from zero as documented.", "DESIGN.md §4 C10"),

 "C04": ("history-based differential runtime monitor: RBig, Relaxed twin and num-rational shadow in lock-step, canonical-form invariant on every value produced",
         "Runtime monitoring of operation histories over a pool of rationals: + - * / % neg abs sqr cubic pow inv, integer operands on either side, Euclidean division family, in-place forms, relax/canonicalize; operands share factors with pool members (gcd-hint and cross-cancellation paths); every RBig ever produced is checked for lowest terms / positive denominator / 0 as 0/1, the Relaxed twin for value equality, division by zero for a panic.",
         "Trusts num-rational; % is judged by the nearest-remainder contract pinned by the test-suite.", "DESIGN.md §4 C04"),
 "C18": ("runtime monitor with independent optimality oracles: continued-fraction 'simplest in interval' (self-tested against brute force each run), brute-force Farey neighbours, own IEEE / digit rounding reference for 'converts back'",
         "Runtime monitoring of is_simpler_than, simplest_in (equal, swapped, negative, straddling, zero and integer endpoints, very narrow intervals), next_up/next_down/nearest against brute force over every denominator up to the limit, simplest_from_f32/f64 over powers of two, subnormals and random patterns, and simplest_from_float over 3 bases x 6 modes incl. power-of-base boundaries: the result must convert back to the same float and equal the simplest fraction of the exact rounding interval.",
         "nearest()'s sign convention follows its doc-test; ties may resolve either way.", "DESIGN.md §4 C18"),

 "C08": ("runtime monitor: grammar-based sentence generator with exact written values, own reference reader for printed text, exact-rational rounding contract for base/precision changes",
         "Runtime monitoring of float parsing (6 bases, all documented markers, hex-float, underscores, signs), printing without and with a precision option (4 bases x 6 modes; the printed text is read back by an independent positional reader and compared with the exact / correctly rounded value) and base changes (7 base pairs x 6 modes, exponents covering the exact, small-exponent and large-exponent branches) against the rounding contract and the target-precision rule.",
         "Underscore-only / sign-in-fraction texts are outside the documented grammar (no-panic only).", "DESIGN.md §4 C08"),

 "C11": ("runtime monitor with an interval-arithmetic oracle: outward-rounded enclosures of exp/ln (own series with explicit remainder bounds, refined until the ulp test is decided), exact rationals where the true value is rational",
         "Runtime monitoring of exp, exp_m1, ln, ln_1p, powi, powf for 6 modes x 5 bases x precisions 1..300 (thorough 3000) on arguments from B^-1000 to 2*10^4 (thorough 2*10^6), at 1 +- B^-k, in the no-scaling branches, with integer exponents up to +-1500 (thorough +-10^6) and integer-valued / tiny float exponents: the result must lie within one ulp of the enclosed true value, Exact only at rational points, unlimited precision must panic. Undecidable cases are counted as inconclusive, never as violations; the recorded known finding has a magnitude ceiling (2 ulp) and a rate ceiling (2% of evaluations).",
         "Trusts the harness' interval exp/ln (self-tested against f64 each run, validated against mpmath at development time).", "DESIGN.md §4 C11"),

 "C14": ("runtime monitor: one exact extended real embedded into every type that can hold it, all 225 ordered type pairs compared against the exact order; hash equality across embeddings",
         "Runtime monitoring of NumOrd (num_partial_cmp, num_eq), AbsOrd and NumHash across UBig, IBig, six primitive integer types, f32/f64 (NaN, infinities, -0.0, subnormals), FBig in bases 2/10/3 with different modes, RBig and non-reduced Relaxed: equal values across types, perturbations by one unit / the last bit / the resolution of the f32 log2 estimate, huge exponents with tiny significands.",
         "Exact order from num-rational; NumHash reference = num-order's own primitive implementation (included among the embeddings).", "DESIGN.md §4 C14"),
 "C16": ("runtime monitor: API-surface sweep at domain edges in worker processes with panic capture, a capped global allocator, a fuel hook on every series/Newton/Euclid loop (logical step budget, not wall clock) and an outer wall-clock watchdog whose firing is inconclusive; expected outcome (must panic / never panics / may) from a table of the documented preconditions",
         "Runtime monitoring of ~300 public operations x edge operands (0, +-1, infinities, precision 0/1, huge shifts and exponents, empty / non-ASCII / arbitrary strings) of all crates: an undocumented panic, a missing documented panic, fuel exhaustion (non-termination in logical steps) or allocation beyond the cap is a violation; parsers are fed grammar mutations and raw byte strings and must return Err. The thorough tier repeats the sweep in the release profile (debug assertions off).",
         "The list of documented preconditions is transcribed from the API docs; 'bounded time' is decided by loop-iteration fuel scaled with precision, the wall clock only guards the harness.", "DESIGN.md §4 C16"),
 "C19": ("differential runtime monitoring across build configurations: the same seeded workloads executed by binaries built from the working tree with {64,32}-bit words x {std,no_std} x {debug assertions on,off}; digest diff against the reference build, in-process serde/byte round-trip and canonical-decoding monitors, and the other properties' oracle monitors re-run inside every configuration",
         "Runtime monitoring: quick = 4 configurations covering each axis value, thorough = all 8; per configuration the digest worker evaluates integer, float, rational, text/byte and serde (serde_json, postcard) cases and must print exactly the digests of the reference build; serde and byte encodings must round-trip, mutated streams must give Err or a canonical value (layout hook, lowest terms, non-zero denominator, normalised significand), log2 bounds must enclose an interval-arithmetic logarithm in each build; then the monitors of C01..C18 (thorough: all; quick: the word-size sensitive ones at reduced counts) run in that configuration with their exact oracles.",
         "Word size is switched by --cfg force_bits (pointer width stays 64); force_bits=16 does not compile on this host and is not covered; each binary reports its own word size / std / assertion / overflow-check state, which is recorded in the evidence.", "DESIGN.md §4 C19"),
 "C20": ("runtime monitoring of generated programs: seeded crates of macro invocations over the literal grammar are compiled against the working tree and executed; each value is compared with the generator's own integer arithmetic and with the run-time parser; a second generated crate of out-of-grammar literals must yield one compile error per invocation; repeated with 32-bit words and (thorough) under Miri",
         "Runtime monitoring: quick 2400 / thorough 20000 invocations of ubig!, ibig!, fbig!, dbig!, rbig! and their static_ variants (directly and through the dashu:: facade macros, in const contexts where the value fits 32 bits) with magnitudes on both sides of the u32 const path, the double word and 1..3+ word static arrays (byte lengths 1..200, padding patterns), prefixes, `base N`, signs, underscores, letter case, hex-float / binary / decimal exponents, fractions and the relaxed marker; 600 / 5000 literals of 24 out-of-grammar families must all be compile errors (one that expands is evaluated and reported with its value); a subset is rebuilt with force_bits=32 (other static word array) and executed under Miri.",
         "Rejection of a literal inside the documented grammar is reported as a note and as lost coverage, not as a violation (the property speaks about accepted literals). Expected values: Python integers; grammar: macros/docs/*.md.", "DESIGN.md §4 C20"),
}
NOT_YET = "monitor not built yet in this round (design in DESIGN.md §4); no claim is made until its check exists and is silent on the unchanged tree"

def main():
    props = [json.loads(l)["id"] for l in open(os.path.join(ROOT, "properties.jsonl"))]
    hooks_commits = subprocess.run(["git", "-C", "/repo", "log", "--format=%H %s"], capture_output=True, text=True).stdout.splitlines()
    hook_shas = [l.split()[0] for l in hooks_commits if " verif hooks" in l or l.split(" ", 1)[1].startswith("verif hooks")]
    checks = []
    na = []
    for p in props:
        if p in P:
            tech, text, note, ref = P[p]
            checks.append({
                "property_id": p,
                "quick_cmd": f"./check {p} --tier quick",
                "thorough_cmd": f"./check {p} --tier thorough",
                "evidence_file": f"/verif/evidence/{p}.json",
                "replay_cmd_template": f"./check {p} --replay {{path}}",
                "engine": "dvh",
                "level_claimed": {"category": "exploration", "text": text, "design_ref": ref},
                "level_note": note,
                "technique": tech,
            })
        else:
            na.append({"property_id": p, "reason": NA.get(p, NOT_YET)})
    m = {
        "version": 1,
        "setup_cmd": "./check --setup",
        "hooks": {
            "guard": "--cfg dashu_verif (rustc cfg flag, set through RUSTFLAGS)",
            "enable": "RUSTFLAGS='--cfg dashu_verif' cargo build --offline --profile mon (done by ./check for every monitor build)",
            "baseline_off_cmd": "cd /repo && cargo nextest run --workspace --no-fail-fast --test-threads 8 --offline || cargo test --workspace --no-fail-fast --offline",
            "source_commits": hook_shas,
            "add_only": True,
        },
        "engines": [
            {"name": "dvh", "path": "/verif/harness", "serves_properties": sorted(P.keys()),
             "kind_free_text": "Rust monitor harness: sharded supervisor/worker processes executing the real dashu crates (path dependencies on /repo, hooks on, debug assertions on) under reference-model oracles, invariant hooks, panic capture; sanitizer runs (Miri/ASan/memcheck) driven by scripts/."},
        ],
        "checks": checks,
        "not_applicable": na,
        "notes": "Runtime monitoring family. ./check <id> rebuilds the monitor against /repo's working tree (cargo path deps), runs it on 16 shards (profile mon: debug assertions and overflow checks on) and repeats it at a quarter of the cases in the plain release profile (C12 additionally in a build without the std feature), rewrites evidence/<id>.json, prints KNOWN-FINDING lines for entries of known_findings.jsonl and VIOLATION lines (exit 1) otherwise; exit 2 = inconclusive (tool failure / required coverage not observed).",
    }
    json.dump(m, open(os.path.join(ROOT, "MANIFEST.json"), "w"), indent=1)
    print("claimed:", len(checks), "not_applicable:", len(na))

NA = {}
if __name__ == "__main__":
    main()
