#!/usr/bin/env python3
"""seed_run.py <seeded-name> <tier> <check ids...> : run seed_eval.sh and record the outcome in seeded/<name>/meta.json"""
import json, os, re, subprocess, sys
name, tier, ids = sys.argv[1], sys.argv[2], sys.argv[3:]
d = f"/verif/seeded/{name}"
p = subprocess.run(["/verif/scripts/seed_eval.sh", d, tier] + ids, capture_output=True, text=True)
print(p.stdout, end="")
if p.returncode != 0 and "SEED" not in p.stdout:
    print(p.stderr); sys.exit(2)
meta = json.load(open(f"{d}/meta.json"))
for l in p.stdout.splitlines():
    m = re.match(r"SEED (\S+) check=(\S+) tier=(\S+) exit=(\d+) violations=(\d+) wall=(\d+)s :: ?(.*)", l)
    if m:
        log = f"/verif/harness/target/seedruns/{name}-{m.group(2)}-{tier}.log"
        fails = [x.strip()[:300] for x in open(log, errors="replace") if x.startswith("FAIL") or x.startswith("  FAIL") or x.startswith("VIOLATION")][:3] if os.path.exists(log) else []
        meta["checks"].setdefault(m.group(2), {})[tier] = {"cmd": f"git -C /repo apply seeded/{name}/patch.diff; VERIF_SEED={os.environ.get('VERIF_SEED','1')} ./check {m.group(2)} --tier {tier}; git -C /repo checkout -- .",
            "exit": int(m.group(4)), "violation_lines": int(m.group(5)), "wall_s": int(m.group(6)), "caught": m.group(4) == "1" and int(m.group(5)) > 0, "first_reports": fails}
json.dump(meta, open(f"{d}/meta.json", "w"), indent=1)
