#!/usr/bin/env python3
"""C17 driver: native monitor (evidence base) + sanitizer family runs of the same history code."""
import json, os, re, subprocess, sys, time, concurrent.futures as cf

ROOT = os.environ.get("DVH_ROOT", "/verif")
H = os.path.join(ROOT, "harness")
args = sys.argv[1:]
tier = os.environ.get("VERIF_TIER", "quick")
seed = int(os.environ.get("VERIF_SEED", "1") or 1)
replay = None
i = 0
while i < len(args):
    if args[i] == "--tier":
        tier = args[i + 1]; i += 1
    elif args[i] == "--seed":
        seed = int(args[i + 1]); i += 1
    elif args[i] == "--replay":
        replay = args[i + 1]; i += 1
    i += 1
BASE_FLAGS = "--cfg dashu_verif"
env = dict(os.environ, CARGO_NET_OFFLINE="true")

def run(cmd, extra_env=None, timeout=None, cwd=H):
    e = dict(env)
    if extra_env:
        e.update(extra_env)
    try:
        p = subprocess.run(cmd, cwd=cwd, env=e, capture_output=True, text=True, timeout=timeout)
        return p.returncode, p.stdout, p.stderr
    except subprocess.TimeoutExpired as ex:
        return -999, (ex.stdout or b"").decode(errors="replace") if isinstance(ex.stdout, bytes) else (ex.stdout or ""), "TIMEOUT"

def build_native():
    rc, out, err = run(["cargo", "build", "--offline", "--profile", "mon", "--bin", "c17"], {"RUSTFLAGS": BASE_FLAGS})
    if rc != 0:
        print(err[-3000:]); print("INCONCLUSIVE build failed (c17)"); sys.exit(2)

MIRI_ENV = {"RUSTFLAGS": BASE_FLAGS, "MIRIFLAGS": "-Zmiri-permissive-provenance"}

def miri_cmd(s, nh, steps, heavy):
    return ["cargo", "+nightly", "miri", "run", "--offline", "--bin", "c17h", "--", str(s), str(nh), str(steps), str(heavy)]

def classify_miri(rc, out, err):
    if rc == 0 and "HISTORY-OK" in out:
        return "ok"
    if "HISTORY-FAIL" in out:
        return "violation"
    if "Undefined Behavior" in err or "error: memory leaked" in err or "data race" in err.lower() or "error: unsupported operation" not in err and "error:" in err and "could not compile" not in err:
        return "violation"
    return "inconclusive"

if replay:
    body = json.load(open(replay))
    if "sanitizer_cmd" in body:
        e = body.get("sanitizer_env", {})
        rc, out, err = run(body["sanitizer_cmd"], e, timeout=7200, cwd=body.get("cwd", H))
        print(out[-4000:]); print(err[-6000:])
        bad = rc != 0
        if bad:
            print(f"VIOLATION property=C17 replay={replay}")
        sys.exit(1 if bad else 0)
    build_native()
    os.execv(os.path.join(H, "target/mon/c17"), ["c17", "--replay", replay])

t0 = time.time()
build_native()
rc_native, out_native, err_native = run([os.path.join(H, "target/mon/c17"), "--tier", tier, "--seed", str(seed)], timeout=7200)
sys.stdout.write(out_native)
ev_path = os.path.join(ROOT, "evidence", "C17.json")
try:
    ev = json.load(open(ev_path))
except Exception:
    print("INCONCLUSIVE native monitor wrote no evidence"); print(err_native[-2000:]); sys.exit(2)

san = {}
violations = []   # (what, replay body)
inconclusive = []

# ---------------- Miri ----------------
# build once (serial) so that the parallel shards do not fight over the cargo lock
rc, out, err = run(miri_cmd(seed, 1, 5, 0), MIRI_ENV, timeout=1800)
if rc != 0:
    kind = classify_miri(rc, out, err)
    if kind == "violation":
        violations.append(("miri warm-up run", {"sanitizer_cmd": miri_cmd(seed, 1, 5, 0), "sanitizer_env": MIRI_ENV, "detail": (out + err)[-3000:]}))
    else:
        inconclusive.append("miri not runnable: " + err[-400:])
nshards = 16
nh, steps = (3, 80) if tier == "quick" else (10, 150)
miri_steps = 0
miri_ok = 0
stats = {"heap_to_inline": 0, "inline_to_heap": 0, "self_alias": 0, "statics": 0}
if not inconclusive and not violations:
    def one(k):
        s = seed * 1000 + k
        return s, run(miri_cmd(s, nh, steps, 0), MIRI_ENV, timeout=5400)
    with cf.ThreadPoolExecutor(max_workers=nshards) as ex:
        for s, (rc, out, err) in ex.map(one, range(nshards)):
            kind = classify_miri(rc, out, err)
            if kind == "ok":
                miri_ok += 1
                m = re.search(r"steps=(\d+) heap_to_inline=(\d+) inline_to_heap=(\d+) .*self_alias=(\d+) statics=(\d+)", out)
                if m:
                    miri_steps += int(m.group(1))
                    stats["heap_to_inline"] += int(m.group(2)); stats["inline_to_heap"] += int(m.group(3))
                    stats["self_alias"] += int(m.group(4)); stats["statics"] += int(m.group(5))
            elif kind == "violation":
                errs = [l for l in err.splitlines() if l.startswith("error") or "-->" in l]
                violations.append(("miri: " + " | ".join(errs[:6]) + " " + out[-300:], {"sanitizer_cmd": miri_cmd(s, nh, steps, 0), "sanitizer_env": MIRI_ENV, "detail": (out + err)[-4000:]}))
            else:
                inconclusive.append(f"miri shard seed={s} rc={rc}: {err[-300:]}")
san["miri"] = {"flags": MIRI_ENV["MIRIFLAGS"], "shards_ok": miri_ok, "shards": nshards, "histories_per_shard": nh, "steps_executed": miri_steps, **stats,
               "includes": "4-thread Arc<UBig> clone/drop smoke for the Send/Sync impls in every shard"}

# ---------------- ASan + LSan, memcheck (thorough) ----------------
if tier == "thorough":
    asan_flags = BASE_FLAGS + " -Zsanitizer=address -Cforce-frame-pointers=yes"
    asan_env = {"RUSTFLAGS": asan_flags, "ASAN_OPTIONS": "detect_leaks=1:halt_on_error=1:abort_on_error=1", "DVH_ROOT": os.path.join(H, "target", "asan-root")}
    os.makedirs(os.path.join(asan_env["DVH_ROOT"], "evidence"), exist_ok=True)
    try:
        import shutil
        shutil.copy(os.path.join(ROOT, "known_findings.jsonl"), os.path.join(asan_env["DVH_ROOT"], "known_findings.jsonl"))
        os.makedirs(os.path.join(asan_env["DVH_ROOT"], "harness", "target"), exist_ok=True)
    except Exception:
        pass
    bins = ["c17h", "c01", "c02", "c07", "c09", "c12", "c13"]
    bargs = sum([["--bin", b] for b in bins], [])
    tdir = os.path.join(H, "target", "asan")
    rc, out, err = run(["cargo", "+nightly", "build", "--offline", "--profile", "mon", "--target", "x86_64-unknown-linux-gnu", "--target-dir", tdir] + bargs, asan_env, timeout=3600)
    if rc != 0:
        inconclusive.append("ASan build failed: " + err[-600:])
    else:
        bdir = os.path.join(tdir, "x86_64-unknown-linux-gnu", "mon")
        asan_runs = {}
        jobs = [("c17h", [os.path.join(bdir, "c17h"), str(seed), "300", "200", "1"])]
        for b, n in [("c01", 300000), ("c02", 200000), ("c07", 60000), ("c09", 300000), ("c12", 60000), ("c13", 100000)]:
            jobs.append((b, [os.path.join(bdir, b), "--tier", "thorough", "--seed", str(seed), "--cases", str(n)]))
        for b, cmd in jobs:
            rc, out, err = run(cmd, asan_env, timeout=5400)
            rep = "AddressSanitizer" in err or "LeakSanitizer" in err or "AddressSanitizer" in out or "LeakSanitizer" in out
            asan_runs[b] = {"rc": rc, "sanitizer_report": rep, "summary": (out.splitlines() or [""])[0][:300]}
            if rep or (b == "c17h" and rc != 0) or (b != "c17h" and "process-death" in out):
                violations.append((f"ASan/LSan report in {b}: " + (err[-600:] + out[-600:]), {"sanitizer_cmd": cmd, "sanitizer_env": asan_env, "detail": (out + err)[-4000:]}))
            elif rc not in (0,):
                # a differential violation under ASan that the native run does not show would be reported by that property's own check
                inconclusive.append(f"{b} under ASan exited {rc}: {out[-300:]}")
        san["asan_lsan"] = {"flags": asan_flags, "runs": asan_runs}
    # memcheck on the plain release build (no debug assertions)
    rc, out, err = run(["cargo", "build", "--offline", "--release", "--bin", "c17h"], {"RUSTFLAGS": BASE_FLAGS}, timeout=3600)
    if rc != 0:
        inconclusive.append("release build failed: " + err[-400:])
    else:
        cmd = ["valgrind", "--error-exitcode=9", "--leak-check=full", "--errors-for-leak-kinds=definite,indirect", "-q", os.path.join(H, "target/release/c17h"), str(seed), "60", "150", "1"]
        rc, out, err = run(cmd, timeout=5400)
        ok = rc == 0 and "HISTORY-OK" in out
        san["memcheck"] = {"rc": rc, "ok": ok, "summary": out.strip()[:300]}
        if rc == 9 or "HISTORY-FAIL" in out:
            violations.append(("valgrind memcheck: " + err[-800:], {"sanitizer_cmd": cmd, "sanitizer_env": {}, "detail": (out + err)[-4000:]}))
        elif not ok:
            inconclusive.append(f"memcheck run rc={rc}: {err[-300:]}")

# ---------------- merge ----------------
ev["coverage"]["sanitizers"] = san
ev["coverage"]["sanitizer_inconclusive"] = inconclusive
ev["coverage"]["evaluations"] = ev["coverage"].get("evaluations", 0) + miri_ok * nh
ev["violations"] = ev.get("violations", 0) + len(violations)
ev["wall_s"] = time.time() - t0
json.dump(ev, open(ev_path, "w"), indent=1)
print(f"C17 sanitizers: miri shards ok {miri_ok}/{nshards}, {miri_steps} steps under Miri" + (f"; asan runs {len(san.get('asan_lsan', {}).get('runs', {}))}; memcheck {san.get('memcheck', {}).get('ok')}" if tier == "thorough" else ""))
code = rc_native
if violations:
    os.makedirs(os.path.join(ROOT, "replays"), exist_ok=True)
    for n, (what, body) in enumerate(violations[:8]):
        path = os.path.join(ROOT, "replays", f"C17-{tier}-s{seed}-san{n}.json")
        body.update({"property": "C17", "tier": tier, "seed": seed, "cwd": H})
        json.dump(body, open(path, "w"), indent=1)
        print("  " + what[:600].replace("\n", " "))
        print(f"VIOLATION property=C17 replay={path}")
    code = 1
elif inconclusive and code == 0:
    print("INCONCLUSIVE property=C17 " + "; ".join(x[:300] for x in inconclusive))
    code = 2
sys.exit(code)
