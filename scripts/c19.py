#!/usr/bin/env python3
"""C19 driver: the same deterministic workloads executed by binaries built from /repo's working tree
in every build configuration {word 64, 32} x {std, no_std} x {debug assertions on, off}.

 (a) digest diff: c19w replays a seeded corpus (integer, float, rational operations, text and byte
     encodings, serde human-readable and binary encodings) and prints one digest per case; every
     configuration must print the same digests as the reference configuration (w64-std-mon);
 (b) in-process monitors of c19w: serde / byte round trips, canonical decoding of mutated streams,
     log2 bounds enclosure (only bounds are promised there, so they are checked in each build);
 (c) the other properties' monitors (their generators and oracles) run inside each configuration.

 exit 0 held / 1 violation / 2 inconclusive (build or tool failure).
"""
import concurrent.futures as cf
import hashlib, json, os, shutil, subprocess, sys, time

ROOT = os.environ.get("DVH_ROOT", "/verif")
H = os.path.join(ROOT, "harness")
T = os.path.join(H, "target")
args = sys.argv[1:]
tier = os.environ.get("VERIF_TIER", "quick")
seed = int(os.environ.get("VERIF_SEED", "1") or 1)
replay = None
cases_override = None
i = 0
while i < len(args):
    if args[i] == "--tier":
        tier = args[i + 1]; i += 1
    elif args[i] == "--seed":
        seed = int(args[i + 1]); i += 1
    elif args[i] == "--replay":
        replay = args[i + 1]; i += 1
    elif args[i] == "--cases":
        cases_override = int(args[i + 1]); i += 1
    i += 1

# name -> (word bits, std, profile)
CONFIGS = {
    "w64-std-mon": (64, True, "mon"),
    "w64-std-rel": (64, True, "release"),
    "w64-nostd-mon": (64, False, "mon"),
    "w64-nostd-rel": (64, False, "release"),
    "w32-std-mon": (32, True, "mon"),
    "w32-std-rel": (32, True, "release"),
    "w32-nostd-mon": (32, False, "mon"),
    "w32-nostd-rel": (32, False, "release"),
}
REF = "w64-std-mon"
QUICK_CONFIGS = [REF, "w32-nostd-rel", "w64-nostd-mon", "w32-std-mon"]
MONITORS_QUICK = {  # monitor -> cases (word-size / estimator / assertion sensitive ones, reduced counts)
    "c01": 300000, "c02": 150000, "c05": 100000, "c07": 100000, "c09": 300000, "c12": 100000, "c13": 100000, "c15": 60000, "c17": None,
}
MONITORS_THOROUGH = ["c01", "c02", "c03", "c04", "c05", "c06", "c07", "c08", "c09", "c10", "c11", "c12", "c13", "c14", "c15", "c17", "c18"]


def target_dir(cfg):
    w, std, _ = CONFIGS[cfg]
    if cfg.startswith("w64-std"):
        return T  # shares the ordinary monitor builds
    return os.path.join(T, "c19-w%d-%s" % (w, "std" if std else "nostd"))


def bin_path(cfg, name):
    return os.path.join(target_dir(cfg), CONFIGS[cfg][2], name)


def rustflags(cfg):
    f = "--cfg dashu_verif"
    if CONFIGS[cfg][0] == 32:
        f += ' --cfg force_bits="32"'
    extra = os.environ.get("DVH_EXTRA_RUSTFLAGS", "")
    return (f + " " + extra).strip()


def build(cfg, bins):
    w, std, prof = CONFIGS[cfg]
    cmd = ["cargo", "build", "--offline", "--profile", prof, "--target-dir", target_dir(cfg)]
    if not std:
        cmd.append("--no-default-features")
    for b in bins:
        cmd += ["--bin", b]
    env = dict(os.environ, CARGO_NET_OFFLINE="true", RUSTFLAGS=rustflags(cfg))
    p = subprocess.run(cmd, cwd=H, env=env, capture_output=True, text=True)
    if p.returncode != 0:
        errs = [l for l in p.stderr.splitlines() if l.startswith("error")]
        print(p.stderr[-3000:])
        print("INCONCLUSIVE build failed for configuration %s: %s" % (cfg, errs[:3]))
        sys.exit(2)


def run_digest(cfg, first, count, full=False, sd=None, timeout=3600):
    cmd = [bin_path(cfg, "c19w"), str(seed if sd is None else sd), str(first), str(count)]
    if full:
        cmd.append("--full")
    try:
        p = subprocess.run(cmd, capture_output=True, text=True, timeout=timeout)
    except subprocess.TimeoutExpired as ex:
        out = ex.stdout.decode(errors="replace") if isinstance(ex.stdout, bytes) else (ex.stdout or "")
        return -999, out, "TIMEOUT after %ds" % timeout
    return p.returncode, p.stdout, p.stderr


def scratch_root(cfg):
    r = os.path.join(T, "c19-root-" + cfg)
    shutil.rmtree(r, ignore_errors=True)
    for d in ("evidence", "replays", "harness/target"):
        os.makedirs(os.path.join(r, d), exist_ok=True)
    shutil.copy(os.path.join(ROOT, "known_findings.jsonl"), os.path.join(r, "known_findings.jsonl"))
    return r


def run_monitor(cfg, mon, cases, extra=None, root=None):
    root = root or os.path.join(T, "c19-root-" + cfg)
    cmd = [bin_path(cfg, mon), "--tier", "quick", "--seed", str(seed)]
    if cases:
        cmd += ["--cases", str(cases)]
    if extra:
        cmd += extra
    env = dict(os.environ, DVH_ROOT=root)
    env.pop("VERIF_TIER", None)
    try:
        p = subprocess.run(cmd, env=env, capture_output=True, text=True, timeout=5400)
        return p.returncode, p.stdout, p.stderr
    except subprocess.TimeoutExpired:
        return 2, "", "TIMEOUT"


def write_replay(body, tag):
    os.makedirs(os.path.join(ROOT, "replays"), exist_ok=True)
    path = os.path.join(ROOT, "replays", "C19-%s-s%d-%s.json" % (tier, seed, tag))
    json.dump(body, open(path, "w"), indent=1)
    return path


# ------------------------------------------------------------------ replay
if replay:
    body = json.load(open(replay))
    kind = body["kind"]
    if kind == "digest":
        a, b = body["configs"]
        build(a, ["c19w"]); build(b, ["c19w"])
        _, oa, _ = run_digest(a, body["idx"], 1, True, body["seed"])
        _, ob, _ = run_digest(b, body["idx"], 1, True, body["seed"])
        la = [l for l in oa.splitlines() if not l.startswith("CONFIG")]
        lb = [l for l in ob.splitlines() if not l.startswith("CONFIG")]
        print("%s: %s" % (a, "\n".join(la)[:3000])); print("%s: %s" % (b, "\n".join(lb)[:3000]))
        if la != lb:
            print("VIOLATION property=C19 replay=%s" % replay); sys.exit(1)
        print("C19 replay: identical"); sys.exit(0)
    if kind == "inproc":
        build(body["config"], ["c19w"])
        _, o, _ = run_digest(body["config"], body["idx"], 1, True, body["seed"])
        bad = [l for l in o.splitlines() if l.startswith("INPROC-VIOLATION")]
        print("\n".join(bad)[:3000])
        if bad:
            print("VIOLATION property=C19 replay=%s" % replay); sys.exit(1)
        print("C19 replay: held"); sys.exit(0)
    if kind == "monitor":
        cfg, mon = body["config"], body["monitor"]
        build(cfg, [mon])
        root = scratch_root(cfg)
        inner = os.path.join(root, "replays", "inner.json")
        json.dump(body["inner"], open(inner, "w"))
        env = dict(os.environ, DVH_ROOT=root)
        p = subprocess.run([bin_path(cfg, mon), "--replay", inner], env=env, capture_output=True, text=True)
        print(p.stdout[-4000:].replace(inner, replay))
        if p.returncode == 1:
            print("VIOLATION property=C19 replay=%s" % replay); sys.exit(1)
        sys.exit(p.returncode)
    print("unknown replay kind"); sys.exit(2)

# ------------------------------------------------------------------ run
t0 = time.time()
configs = QUICK_CONFIGS if tier == "quick" else list(CONFIGS)
monitors = dict(MONITORS_QUICK) if tier == "quick" else {m: None for m in MONITORS_THOROUGH}
n_cases = cases_override or (48000 if tier == "quick" else 1600000)

# builds are serial (each one already uses every core)
for cfg in configs:
    bins = ["c19w"] + ([] if cfg == REF else sorted(monitors))
    build(cfg, bins)

violations = []      # (text, replay body, tag)
inconclusive = []
observed = {}        # cfg -> CONFIG line of the binary itself
per_config = {c: {"digest_cases_compared": 0, "digest_mismatches": 0, "inproc_violations": 0, "monitors": {}} for c in configs}

# (a)+(b) digest comparison in chunks, all configurations of a chunk in parallel
chunk = 3000 if tier == "quick" else 25000
chunks = [(f, min(chunk, n_cases - f)) for f in range(0, n_cases, chunk)]
distinct = set()
ops = {}
samples = []
trivial = 0


stuck = {}   # cfg -> number of chunks that did not finish


def do_chunk(fc):
    first, count = fc
    outs = {}
    t_ref = None
    for cfg in configs:     # the reference configuration comes first
        if stuck.get(cfg, 0) >= 2:
            outs[cfg] = (-998, "", "skipped: this configuration already failed to finish two chunks")
            continue
        t1 = time.time()
        # generous wall-clock guard relative to the reference build of the same chunk; its firing is
        # reported as inconclusive (a logical-step verdict on termination is the business of C16)
        limit = 3600 if t_ref is None else max(180, int(200 * t_ref))
        rc, out, err = run_digest(cfg, first, count, timeout=limit)
        if cfg == REF:
            t_ref = time.time() - t1
        if rc == -999:
            stuck[cfg] = stuck.get(cfg, 0) + 1
        outs[cfg] = (rc, out, err)
    return first, count, outs


with cf.ThreadPoolExecutor(max_workers=max(1, 16 // len(configs))) as ex:
    for first, count, outs in ex.map(do_chunk, chunks):
        parsed = {}
        for cfg, (rc, out, err) in outs.items():
            lines = out.splitlines()
            if rc == -998:
                continue
            if rc != 0 or not lines or not lines[0].startswith("CONFIG"):
                # a dead worker is a process death inside the library (abort / stack overflow / OOM); a worker
                # that does not finish within 200x the reference build's time is a suspected non-termination
                done = sum(1 for l in lines if l and l[0].isdigit())
                inconclusive.append("c19w %s in %s on cases %d..%d after %d cases: %s" % ("did not finish" if rc == -999 else "died (rc=%s)" % rc, cfg, first, first + count, done, err[-300:]))
                per_config[cfg]["unfinished_chunks"] = per_config[cfg].get("unfinished_chunks", 0) + 1
                if rc != -999:
                    continue
                # compare what the unfinished worker printed before it got stuck
                lines = [l for l in lines if l.startswith("CONFIG") or l.startswith("INPROC") or len(l.split(" ")) == 4]
                if not lines or not lines[0].startswith("CONFIG"):
                    continue
            observed[cfg] = lines[0]
            dig = {}
            for l in lines[1:]:
                if l.startswith("INPROC-VIOLATION"):
                    per_config[cfg]["inproc_violations"] += 1
                    idx = int(l.split("idx=")[1].split()[0])
                    violations.append(("[%s] %s" % (cfg, l[:400]), {"kind": "inproc", "config": cfg, "seed": seed, "idx": idx}, "inproc-%s-i%d" % (cfg, idx)))
                    continue
                f = l.split(" ")
                dig[int(f[0])] = (f[1], f[2], f[3])
            if len(dig) != count and rc != -999:
                inconclusive.append("c19w in %s printed %d of %d cases (%d..)" % (cfg, len(dig), count, first))
            parsed[cfg] = dig
        if REF not in parsed:
            continue
        ref = parsed[REF]
        for idx, (op, h, tr) in ref.items():
            ops[op] = ops.get(op, 0) + 1
            if tr == "n":
                distinct.add(h)
            else:
                trivial += 1
        for cfg, dig in parsed.items():
            if cfg == REF:
                continue
            for idx, v in dig.items():
                if idx not in ref:
                    continue
                per_config[cfg]["digest_cases_compared"] += 1
                if v[1] != ref[idx][1]:
                    per_config[cfg]["digest_mismatches"] += 1
                    if per_config[cfg]["digest_mismatches"] <= 3:
                        _, fa, _ = run_digest(REF, idx, 1, True)
                        _, fb, _ = run_digest(cfg, idx, 1, True)
                        la = [l for l in fa.splitlines() if not l.startswith("CONFIG")]
                        lb = [l for l in fb.splitlines() if not l.startswith("CONFIG")]
                        txt = "case %d (%s) differs between %s and %s:\n   %s\n   %s" % (idx, v[0], REF, cfg, " ".join(la)[:600], " ".join(lb)[:600])
                        violations.append((txt, {"kind": "digest", "configs": [REF, cfg], "seed": seed, "idx": idx}, "digest-%s-i%d" % (cfg, idx)))
        per_config[REF]["digest_cases_compared"] += len(ref)

# a few written-out cases for the evidence file
_, full_out, _ = run_digest(REF, 0, 16, True)
samples = [l[:300] for l in full_out.splitlines()[1:]][:16]

# (c) the other properties' monitors inside each non-reference configuration (one monitor at a time:
# each monitor already spreads over 16 worker processes)
mon_evals = 0
for cfg in configs:
    if cfg == REF:
        continue
    if per_config[cfg]["digest_mismatches"] or per_config[cfg].get("unfinished_chunks") or per_config[cfg]["inproc_violations"]:
        # the configuration already disagrees with the reference build: the verdict is settled, and the
        # oracle monitors could take very long on a build that miscomputes or does not terminate
        per_config[cfg]["monitors_skipped"] = "configuration already shows violations in the digest phase"
        continue
    root = scratch_root(cfg)
    for mon, cases in sorted(monitors.items()):
        t1 = time.time()
        rc, out, err = run_monitor(cfg, mon, cases, root=root)
        summary = [l for l in out.splitlines() if l.startswith(mon.upper() + " tier=")]
        ev = {}
        try:
            ev = json.load(open(os.path.join(root, "evidence", mon.upper() + ".json")))
        except Exception:
            pass
        evals = ev.get("coverage", {}).get("evaluations", 0)
        mon_evals += evals
        per_config[cfg]["monitors"][mon] = {"exit": rc, "evaluations": evals, "distinct_nontrivial": ev.get("coverage", {}).get("distinct_nontrivial", 0), "wall_s": round(time.time() - t1, 1)}
        if rc == 1:
            vl = [l for l in out.splitlines() if l.startswith("VIOLATION")]
            for l in vl[:3]:
                inner_path = l.split("replay=")[1].strip()
                try:
                    inner = json.load(open(inner_path))
                except Exception:
                    inner = None
                detail = [x for x in out.splitlines() if x.startswith("  ") or "FAIL" in x][:6]
                txt = "[%s] monitor %s reports a violation that the reference build does not show:\n   %s" % (cfg, mon, "\n   ".join(d[:400] for d in detail))
                violations.append((txt, {"kind": "monitor", "config": cfg, "monitor": mon, "inner": inner}, "mon-%s-%s-%d" % (cfg, mon, len(violations))))
        elif rc != 0:
            inconclusive.append("[%s] monitor %s inconclusive (rc=%s): %s" % (cfg, mon, rc, (out + err)[-300:]))
    shutil.rmtree(root, ignore_errors=True)

# evidence
digest_evals = sum(per_config[c]["digest_cases_compared"] for c in configs)
cfg_table = {}
for c in configs:
    w, std, prof = CONFIGS[c]
    cfg_table[c] = dict(per_config[c], word_bits=w, std=std, profile=prof, rustflags=rustflags(c), binary_reports=observed.get(c, ""))
ev = {
    "property_id": "C19", "tier": tier, "seed": seed, "level": "exploration",
    "coverage": {
        "evaluations": digest_evals + mon_evals,
        "distinct_nontrivial": len(distinct),
        "rule": "case idx of seed -> operands by the shared generators; every configuration evaluates the same case and prints a 64-bit digest of the full textual result (values in hex, flags, encodings); distinct_nontrivial = distinct digests of the reference configuration whose case was not skipped (zero divisor etc.) and did not panic; monitors of the other properties are re-run inside each configuration with their own oracles",
        "samples": samples,
        "configurations": cfg_table,
        "configurations_compared": len(configs),
        "digest_cases_per_configuration": n_cases,
        "digest_operations": ops,
        "trivial_cases": trivial,
        "monitor_evaluations_in_other_configurations": mon_evals,
        "inconclusive": inconclusive[:20],
        "force_bits_16": "not built: force_bits=\"16\" does not compile on this host (stated in the property)",
    },
    "assumptions": [
        "the reference configuration (64-bit words, std, debug assertions) is judged against exact models by the monitors of C01-C18; agreement of digests transfers those verdicts to the other configurations",
        "target pointer width stays 64 bit in every configuration (force_bits only changes Word); a real 32-bit target is not available in this sandbox",
        "serde media: serde_json (human readable) and postcard (binary)",
    ],
    "wall_s": round(time.time() - t0, 1),
    "violations": len(violations),
}
os.makedirs(os.path.join(ROOT, "evidence"), exist_ok=True)
json.dump(ev, open(os.path.join(ROOT, "evidence", "C19.json"), "w"), indent=1)

# known findings of this property (none are keyed in the driver: print the open ones of the file)
for l in open(os.path.join(ROOT, "known_findings.jsonl")):
    l = l.strip()
    if not l:
        continue
    k = json.loads(l)
    if k.get("property") == "C19" and k.get("status") == "open":
        print(k["line"])

print("C19 tier=%s seed=%d configurations=%d digest_cases=%d distinct_nontrivial=%d monitor_evaluations=%d violations=%d inconclusive=%d wall=%.1fs" % (
    tier, seed, len(configs), n_cases, len(distinct), mon_evals, len(violations), len(inconclusive), time.time() - t0))
for c in configs:
    print("  %-14s %s | compared=%d mismatches=%d inproc=%d monitors=%s" % (c, observed.get(c, "?")[7:90], per_config[c]["digest_cases_compared"], per_config[c]["digest_mismatches"], per_config[c]["inproc_violations"],
          ",".join("%s:%d" % (m, v["exit"]) for m, v in sorted(per_config[c]["monitors"].items()))))
if violations:
    seen = set()
    for txt, body, tag in violations[:12]:
        print("FAIL " + txt)
        path = write_replay(body, tag)
        print("VIOLATION property=C19 replay=%s" % path)
    sys.exit(1)
if inconclusive:
    for x in inconclusive[:10]:
        print("INCONCLUSIVE " + x)
    sys.exit(2)
sys.exit(0)
