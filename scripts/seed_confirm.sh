#!/usr/bin/env bash
# seed_confirm.sh <src_dir> <n> <work_name>
# Confirms a seeded change in a scratch worktree of /repo under /tmp (never in /repo itself):
#   tests pass with the patch, demo fails with the patch, demo passes without it.
# <src_dir> holds patch<n>.diff and demo<n>/ ; prints CONFIRMED or the reason it is not.
src="$1"; n="$2"; name="${3:-cf}"
wt="/tmp/cf-$name-$n"
git -C /repo worktree remove --force "$wt" >/dev/null 2>&1; rm -rf "$wt"
git -C /repo worktree add --detach "$wt" HEAD >/dev/null 2>&1 || { echo "NOT-CONFIRMED worktree failed"; exit 2; }
cleanup() { git -C /repo worktree remove --force "$wt" >/dev/null 2>&1; rm -rf "$wt"; }
trap cleanup EXIT
cd "$wt" || exit 2
unset RUSTFLAGS
export CARGO_NET_OFFLINE=true
if ! git apply --check "$src/patch$n.diff" 2>/tmp/cf-$name-$n.err; then echo "NOT-CONFIRMED patch does not apply: $(head -3 /tmp/cf-$name-$n.err)"; exit 1; fi
mkdir -p _seed && cp -r "$src/demo$n" "_seed/demo$n" && rm -rf "_seed/demo$n/target"
cp Cargo.lock "_seed/demo$n/Cargo.lock" 2>/dev/null
mode=""; grep -qi "release" "$src/notes$n.md" 2>/dev/null && mode="--release"
# 1. without the patch the demo passes
( cd "_seed/demo$n" && timeout 1800 cargo run --offline $mode >/tmp/cf-$name-$n.clean.log 2>&1 ); rc_clean=$?
git apply "$src/patch$n.diff"
# 2. with the patch the pinned suite passes
timeout 3600 cargo nextest run --workspace --no-fail-fast --test-threads 8 --offline >/tmp/cf-$name-$n.test.log 2>&1; rc_test=$?
summary=$(grep -E "Summary" /tmp/cf-$name-$n.test.log | tail -1)
# 3. with the patch the demo fails
( cd "_seed/demo$n" && timeout 1800 cargo run --offline $mode >/tmp/cf-$name-$n.mut.log 2>&1 ); rc_mut=$?
echo "demo_clean_rc=$rc_clean tests_rc=$rc_test [$summary] demo_mutated_rc=$rc_mut mode=${mode:-debug}"
if [ $rc_clean -eq 0 ] && [ $rc_test -eq 0 ] && [ $rc_mut -ne 0 ] && [ $rc_mut -ne 124 ]; then echo "CONFIRMED"; exit 0; fi
echo "NOT-CONFIRMED"; tail -5 /tmp/cf-$name-$n.mut.log; exit 1
