#!/usr/bin/env bash
# C16: monitor in the `mon` profile (debug assertions on); the thorough tier repeats it in the plain
# release profile, where debug_assert!/overflow checks are compiled out (a hang or a wrapped result
# there is invisible to the first run). Evidence comes from the mon run and records the second run.
set -u
ROOT="${DVH_ROOT:-/verif}"
cd "$ROOT/harness" || exit 2
tier="${VERIF_TIER:-quick}"
args=("$@")
for ((i=0;i<${#args[@]};i++)); do
  if [ "${args[$i]}" = "--tier" ]; then tier="${args[$((i+1))]}"; fi
  if [ "${args[$i]}" = "--replay" ]; then replay=1; fi
done
log="$ROOT/harness/target/build-c16-$$.log"
mkdir -p "$ROOT/harness/target"
if ! cargo build --offline --profile mon --bin c16 >"$log" 2>&1; then
  grep -E "^error" -A12 "$log" | head -40; echo "INCONCLUSIVE build failed (c16)"; exit 2
fi
if [ "${replay:-0}" = "1" ] || [ "$tier" != "thorough" ]; then
  exec "$ROOT/harness/target/mon/c16" "$@"
fi
"$ROOT/harness/target/mon/c16" "$@"; rc1=$?
if ! cargo build --offline --release --bin c16 >"$log" 2>&1; then
  grep -E "^error" -A12 "$log" | head -40; echo "INCONCLUSIVE release build failed (c16)"; exit 2
fi
rm -f "$log"
rel_root="$ROOT/harness/target/c16-release-root"
mkdir -p "$rel_root/evidence" "$rel_root/harness/target" "$rel_root/replays"
cp "$ROOT/known_findings.jsonl" "$rel_root/known_findings.jsonl"
out=$(DVH_ROOT="$rel_root" "$ROOT/harness/target/release/c16" "$@" --cases 3000000 2>&1); rc2=$?
echo "--- release profile repeat (debug assertions and overflow checks off) ---"
echo "$out" | sed "s#$rel_root/replays#$ROOT/replays#g"
cp -f "$rel_root"/replays/*.json "$ROOT/replays/" 2>/dev/null
python3 - "$ROOT/evidence/C16.json" "$rel_root/evidence/C16.json" "$rc2" <<'PY'
import json, sys
ev = json.load(open(sys.argv[1]))
try:
    rel = json.load(open(sys.argv[2]))
    ev["coverage"]["release_profile_repeat"] = {"exit": int(sys.argv[3]), "evaluations": rel["coverage"]["evaluations"], "violations": rel.get("violations", 0), "known_finding_hits": rel["coverage"].get("known_finding_hits")}
    ev["violations"] = ev.get("violations", 0) + rel.get("violations", 0)
except Exception as e:
    ev["coverage"]["release_profile_repeat"] = {"error": str(e)}
json.dump(ev, open(sys.argv[1], "w"), indent=1)
PY
if [ $rc1 -ne 0 ]; then exit $rc1; fi
exit $rc2
