#!/usr/bin/env bash
# ./scripts/runall.sh <tier> [seed] [ids...]   run the registered checks one after another, print one line per check
tier="${1:-quick}"; seed="${2:-1}"; shift 2 2>/dev/null
ids=("$@"); [ ${#ids[@]} -eq 0 ] && ids=(C01 C02 C03 C04 C05 C06 C07 C08 C09 C10 C11 C12 C13 C14 C15 C16 C17 C18 C19 C20)
cd "$(dirname "$0")/.." || exit 2
mkdir -p harness/target/run
for id in "${ids[@]}"; do
  t0=$(date +%s)
  VERIF_SEED=$seed ./check "$id" --tier "$tier" > "harness/target/run/$id-$tier-s$seed.log" 2>&1; rc=$?
  t1=$(date +%s)
  v=$(grep -c "^VIOLATION" "harness/target/run/$id-$tier-s$seed.log")
  k=$(grep -c "^KNOWN-FINDING" "harness/target/run/$id-$tier-s$seed.log")
  echo "$id tier=$tier seed=$seed exit=$rc violations=$v known_findings=$k wall=$((t1-t0))s"
done
