#!/usr/bin/env python3
"""Writes the needs_to_manifest summaries into seeded/*/meta.json and prints the markdown table for DESIGN.md §7.1."""
import glob, json, os
NEEDS = {
 "C16-3": "float split_bits shortcut off by one: round/floor/fract/to_int, `{:.N}` and base-2 add/sub panic (slice index) when the split position falls in the word just above the significand (significands of 64k-2..64k bits)",
 "C16-4": "ln fast path ln(B^e) = e*ln_base() recurses into ln_base() for bases other than 2, 10 and powers of two: every exp / powf / ln(B^e) in base 3, 5, 7, ... overflows the stack",
 "C17-3": "shrink_to_fit threshold composed from the wrong policy function: buffers stay up to ~1.4 len + 6 words after by-value operations whose result is 10-20 % shorter (compactness bound broken, values right)",
 "C17-4": "two cooperating edits (push capacity check demoted to debug_assert, set_bit reserves one word too few): set_bit at word index == buffer capacity writes past the allocation in release builds, assertion in debug",
 "C18-5": "is_simpler_than compares numerators with their sign: wrong for equal denominators with a negative numerator; simplest_from_f32 of large negative floats picks the wrong end",
 "C20-3": "float macros' const path emits `<literal> as _`: significands in [2^31, 2^32) wrap negative and sign-extend (value ~2^128, precision 128/38)",
 "C20-4": "static_rbig! of a strict literal whose parts share an odd factor: only powers of two removed, non-canonical RBig (6/9 stays 6/9)",

 "C01-3": "`&a - b` on UBig with both operands >= 3 words, the same word count and a < b: wrapped value instead of the underflow panic (one ownership form only)",
 "C01-4": "one operand above 1024 words times an operand of 3..24 words (chunked schoolbook path): wrong product in release, debug_assert in debug",
 "C02-3": "schoolbook division step whose running remainder's top word equals the divisor's top word while the true quotient word is 2^W - 2 (divisor >= 3 words)",
 "C02-4": "`0.is_multiple_of(b)` returns false (trailing_zeros shortcut compares None < Some)",
 "C03-3": "mul/sqr/cubic/equal-exponent add whose exact result sits just below a power of the base (>= 24 leading one bits, >= 7 nines): digit count over-estimated, result rounded to p-1 digits",
 "C03-4": "odd base, half modes, discarded low part exactly (B^k-1)/2 with k past the f32 pre-filter (k >= 7 in base 3): treated as a tie",
 "C04-3": "RBig / RBig with a dividend numerator of exactly +1 and denominators sharing a factor: quotient not in lowest terms",
 "C04-4": "RBig / zero integer and integer / RBig zero: returns +-1/0 instead of panicking (Relaxed forms still panic)",
 "C05-3": "clone_from onto a negative heap host whose buffer is reused: sign flipped (value != clone())",
 "C05-4": "RBig/Relaxed cmp with a zero left operand against a non-integer below 1/8: Greater; Relaxed zeros with different denominators not Equal",
 "C06-3": "f32::encode (normal branch, sticky mask 0x7f): odd 26-bit mantissas reported Exact or rounded as ties",
 "C06-4": "UBig/IBig::to_f64 of > 128-bit integers m*2^k + d with a small d: Exact instead of Inexact (the value is right)",
 "C07-3": "formatter: `0` flag together with an explicit alignment and a width: alignment wins, primitive formatting ignores it",
 "C07-4": "IBig::to_le/be_bytes of a negative value of >= 3 words whose lowest word is zero: carry of the two's complement lost",
 "C08-3": "`{:.N}` Display of a non-zero |x| < B^-(N+1) under Away/Up/Down: prints 0.00",
 "C08-4": "conversion to a root base (16->2, 8->2, 9->3, 16->4) of a significand divisible by the target base: unnormalised result, Inexact flag for exact values",
 "C09-3": "negative IBig above 128 bits >> n for n a multiple of 64 when only the highest shifted-out word is non-zero: floor correction lost",
 "C09-4": "IBig::trailing_ones of a negative multi-word value whose lowest word is 1: 64 too small",
 "C10-3": "Round::round_fract in odd bases with the fraction exactly +-(B^p-1)/2 and enough digits (p >= 7 in base 3): treated as a tie",
 "C10-4": "owned with_precision for significands just below a power of the base (>= 20 leading one bits, >= 7 nines): one digit too many removed, Inexact for exact",
 "C11-3": "Context::powi: rounded intermediate products whose final rounding happens to be exact come back flagged Exact",
 "C11-4": "powf in non-binary bases for results of extreme magnitude (B^+-1000 and beyond): guard digits cut, 2-10 ulp off",
 "C12-3": "`(&a).gcd_ext(b)` with a <= 2 words by reference and b > 2 words by value: s and t exchanged (one of four ownership impls)",
 "C12-4": "only without the std feature: log2_bounds upper bound too small when the top 16 bits are exactly 0x8000",
 "C13-3": "Reducer::add / dbl on a multi-word modulus when the sum equals the modulus exactly: returns m instead of 0",
 "C13-4": "release builds only: multi-word modular subtraction that borrows (the add-back moved inside debug_assert!)",
 "C14-3": "AbsOrd between a negative FBig/Repr and a UBig when the log2 filter cannot separate them (equal or adjacent): always Less",
 "C14-4": "NumHash of UBig/IBig with magnitude in [2^127-1, 2^128) (inline double-word fast path), 64-bit words only",
 "C15-3": "and-not with a borrowed left and an owned right operand, both >= 3 words, right one longer: high words leak, `&x & y` disagrees with `x & y`",
 "C15-4": "`&a - b` on equal-length heap operands with a < b returns a wrapped value while the five other forms panic",
 "C18-3": "next_up/next_down/nearest when the search reaches bounds whose denominators add up to exactly the limit: neighbour of order limit-1 returned",
 "C18-4": "simplest_from_float under Away/Up/Down (and HalfEven in base 10 at low precision): the inclusive end farther from zero is ignored",
 "C19-3": "serde decoding of an RBig from a stream whose parts share an odd factor (\"6/9\", bytes of a Relaxed): non-canonical RBig",
 "C19-4": "release builds only: modular mul/sqr of short operands (lengths summing to the modulus length) with product >= m (the subtraction moved inside debug_assert!)",

 "C01-1": "release builds only (a borrow propagation was moved inside debug_assert!); Karatsuba/Toom-3 sizes (> 24 words) with a zero word below a split point",
 "C01-2": "heap operand (>= 3 words) times a two-word operand whose product has a zero second-highest word (carry words appended with push_resizing)",
 "C02-1": "divide-and-conquer division (divisor and quotient > 32 words) needing two quotient corrections (~3 % of random inputs of that class)",
 "C02-2": "ConstDivisor from a one-word divisor with the top bit set, `%` on a two-word dividend whose high word >= divisor; silent in release, dependency assert in debug",
 "C03-1": "`sub` with the smaller-exponent operand on the left, same signs, larger operand a power of the base: guard digit lost",
 "C03-2": "sqrt of x with negative odd (digits + exponent), even base, half modes, (p+1)-digit root on a tie: double rounding",
 "C04-1": "RBig % RBig when the bit-length sums differ by exactly 2 and |x/y| in [1/2, 1): remainder not reduced",
 "C04-2": "0 * (n / 2^k): product stored as 0/2^k (non-canonical zero), later sums come out unreduced (multi-step)",
 "C05-1": "with_base from a base that is a power of the target (16->2, 100->10, 9->3) with a significand divisible by the new base: unnormalised float, == false while cmp says Equal",
 "C05-2": "exactly one operand with unlimited precision (0) and many digits against a short operand inside its digit span: precision shortcut in cmp",
 "C06-1": "RBig/Relaxed -> f32/f64 for |x| in (min_subnormal/2, min_subnormal): flushed to zero with the wrong error sign",
 "C06-2": "RBig::to_float when ilog(num) - ilog(den) == precision exactly, half modes: guard digit lost",
 "C07-1": "printing values of particular word counts (63, 125, 127, 249, 253, ... depending on the radix): radix-power table one level short, slice panic",
 "C07-2": "decimal parser fast path accepts the characters `:;<=>?` as digits in inputs of >= 8 characters: Ok(wrong number) instead of Err",
 "C08-1": "base conversion (2<->10) of negative inexact values under Up/Down: rounded to the wrong side with a consistent flag",
 "C08-2": "`{:.Ne}`/`{:.Nb}`/`{:.Nx}` when rounding carries out of the leading digit (9.96 -> `1.0e0`): printed value too small by a factor of the base",
 "C09-1": "UBig::ones(n) for n a multiple of 64 and >= 192: top word missing",
 "C09-2": "mixed-sign `&` with the non-negative operand by reference, both > 128 bits, non-negative operand longer: high words dropped; owned forms stay right",
 "C10-1": "FBig::to_int for non-zero |x| < B^-2 under Away/Up/Down: returns 0/NoOp instead of +-1",
 "C10-2": "RBig/Relaxed::round for x in (-1, -1/2]: rounds to +1",
 "C11-1": "ln(x) for 1 < x < 1 + 3e-6: cancellation without the doubled working precision (thousands of ulps)",
 "C11-2": "exp_m1(x) for tiny x at p >= 12 digits: returns x (relative error |x|/2)",
 "C12-1": "sqrt/sqrt_rem of > 4-word radicands with an odd half-length at some recursion level and long runs of one bits",
 "C12-2": "gcd_ext of multi-word operands sharing a 32-64 bit common factor (first one-word remainder is the gcd): Bezout coefficient with the wrong sign",
 "C13-1": "multi-word modulus without normalisation shift, operand lengths summing to the modulus length, a*b >= m: residue not reduced",
 "C13-2": "ring over a one-word modulus with the top bit set, reducing a two-word integer whose high word >= m",
 "C14-1": "negative IBig n against a negative non-integer float in (n, n+1)",
 "C14-2": "FBig of any base against a subnormal f32/f64 of the same sign",
 "C15-1": "`tiny - &big` (by-reference subtraction, left operand far below the rounding position) under Zero/Up/Down: differs from the owned form by one ulp",
 "C15-2": "clone_from onto a negative destination whose buffer is reused (source >= 3 words): old sign kept",
 "C16-1": "`from_str_with_radix_prefix` family on non-ASCII text whose byte 2 is inside a character: panic instead of Err",
 "C16-2": "ilog(target, base) with a base of >= 3 words and base < target <= base*(1+2^-14): undocumented panic (debug) / ~4e9 iterations (release)",
 "C17-1": "clone_from onto a negative heap destination on a releasing path: old buffer leaked",
 "C17-2": "UBig::ones(2*WORD_BITS): two-word value left on the heap (length 2)",
 "C18-1": "next_down(limit) when the reduced denominator equals the limit: returns x itself",
 "C18-2": "simplest_from_float(-B^k), k >= precision, modes HalfEven/HalfAway/Away/Down: interval towards zero B times too wide",
 "C19-1": "only in builds that use the generic (non-x86_64) word arithmetic, e.g. force_bits=\"32\": add_with_carry drops the carry when b == Word::MAX",
 "C19-2": "only without the std feature: log2_bounds upper bound too small when the top 16 bits are exactly 0x8000 and lower bits are set (65537u32)",
 "C20-1": "only with 32-bit words: non-static ubig!/ibig! literals of 65-128 bits built through a truncating `as _` cast (value mod 2^64)",
 "C20-2": "negative non-static fbig! literal with a significand above 32 bits: sign lost on the heap code generator path",
}
rows = []
for d in sorted(glob.glob("/verif/seeded/*/")):
    name = os.path.basename(d.rstrip("/"))
    mp = d + "meta.json"
    meta = json.load(open(mp))
    if name in NEEDS:
        meta["needs_to_manifest"] = NEEDS[name]
        json.dump(meta, open(mp, "w"), indent=1)
    caught, missed = [], []
    for chk, tiers in sorted(meta.get("checks", {}).items()):
        for tier, r in sorted(tiers.items()):
            (caught if r.get("caught") else missed).append(f"{chk} {tier}")
    note = meta.get("note", "")
    rows.append(f"| {name} | {', '.join(meta['files_changed'])} | {meta.get('needs_to_manifest','')} | {', '.join(caught) or '-'} | {', '.join(missed) or '-'}{(' — ' + note) if note else ''} |")
print("| change | file | needs, to manifest | caught by | not caught by |")
print("|---|---|---|---|---|")
print("\n".join(rows))
