#!/usr/bin/env python3
"""Writes the needs_to_manifest summaries into seeded/*/meta.json and prints the markdown table for DESIGN.md §7.1."""
import glob, json, os
NEEDS = {
 "C01-1": "release builds only (a borrow propagation was moved inside debug_assert!); Karatsuba/Toom-3 sizes (> 24 words) with a zero word below a split point",
 "C01-2": "heap operand (>= 3 words) times a two-word operand whose product has a zero second-highest word (carry words appended with push_resizing)",
 "C02-1": "divide-and-conquer division (divisor and quotient > 32 words) needing two quotient corrections (~3 % of random inputs of that class)",
 "C02-2": "ConstDivisor from a one-word divisor with the top bit set, `%` on a two-word dividend whose high word >= divisor; silent in release, dependency assert in debug",
 "C03-1": "`sub` with the smaller-exponent operand on the left, same signs, larger operand a power of the base: guard digit lost",
 "C03-2": "sqrt of x with negative odd (digits + exponent), even base, half modes, (p+1)-digit root on a tie: double rounding",
 "C04-1": "RBig % RBig when the bit-length sums differ by exactly 2 and |x/y| in [1/2, 1): remainder not reduced",
 "C04-2": "0 * (n / 2^k): product stored as 0/2^k (non-canonical zero), later sums come out unreduced (multi-step)",
 "C05-1": "with_base from a base that is a power of the target (16->2, 100->10, 9->3) with a significand divisible by the new base: unnormalised float, == false while cmp says Equal",
 "C05-2": "exactly one operand with unlimited precision (0) and many digits against a short operand inside its digit span: precision shortcut in cmp",
 "C06-1": "RBig/Relaxed -> f32/f64 for |x| in (min_subnormal/2, min_subnormal): flushed to zero with the wrong error sign",
 "C06-2": "RBig::to_float when ilog(num) - ilog(den) == precision exactly, half modes: guard digit lost",
 "C07-1": "printing values of particular word counts (63, 125, 127, 249, 253, ... depending on the radix): radix-power table one level short, slice panic",
 "C07-2": "decimal parser fast path accepts the characters `:;<=>?` as digits in inputs of >= 8 characters: Ok(wrong number) instead of Err",
 "C08-1": "base conversion (2<->10) of negative inexact values under Up/Down: rounded to the wrong side with a consistent flag",
 "C08-2": "`{:.Ne}`/`{:.Nb}`/`{:.Nx}` when rounding carries out of the leading digit (9.96 -> `1.0e0`): printed value too small by a factor of the base",
 "C09-1": "UBig::ones(n) for n a multiple of 64 and >= 192: top word missing",
 "C09-2": "mixed-sign `&` with the non-negative operand by reference, both > 128 bits, non-negative operand longer: high words dropped; owned forms stay right",
 "C10-1": "FBig::to_int for non-zero |x| < B^-2 under Away/Up/Down: returns 0/NoOp instead of +-1",
 "C10-2": "RBig/Relaxed::round for x in (-1, -1/2]: rounds to +1",
 "C11-1": "ln(x) for 1 < x < 1 + 3e-6: cancellation without the doubled working precision (thousands of ulps)",
 "C11-2": "exp_m1(x) for tiny x at p >= 12 digits: returns x (relative error |x|/2)",
 "C12-1": "sqrt/sqrt_rem of > 4-word radicands with an odd half-length at some recursion level and long runs of one bits",
 "C12-2": "gcd_ext of multi-word operands sharing a 32-64 bit common factor (first one-word remainder is the gcd): Bezout coefficient with the wrong sign",
 "C13-1": "multi-word modulus without normalisation shift, operand lengths summing to the modulus length, a*b >= m: residue not reduced",
 "C13-2": "ring over a one-word modulus with the top bit set, reducing a two-word integer whose high word >= m",
 "C14-1": "negative IBig n against a negative non-integer float in (n, n+1)",
 "C14-2": "FBig of any base against a subnormal f32/f64 of the same sign",
 "C15-1": "`tiny - &big` (by-reference subtraction, left operand far below the rounding position) under Zero/Up/Down: differs from the owned form by one ulp",
 "C15-2": "clone_from onto a negative destination whose buffer is reused (source >= 3 words): old sign kept",
 "C16-1": "`from_str_with_radix_prefix` family on non-ASCII text whose byte 2 is inside a character: panic instead of Err",
 "C16-2": "ilog(target, base) with a base of >= 3 words and base < target <= base*(1+2^-14): undocumented panic (debug) / ~4e9 iterations (release)",
 "C17-1": "clone_from onto a negative heap destination on a releasing path: old buffer leaked",
 "C17-2": "UBig::ones(2*WORD_BITS): two-word value left on the heap (length 2)",
 "C18-1": "next_down(limit) when the reduced denominator equals the limit: returns x itself",
 "C18-2": "simplest_from_float(-B^k), k >= precision, modes HalfEven/HalfAway/Away/Down: interval towards zero B times too wide",
 "C19-1": "only in builds that use the generic (non-x86_64) word arithmetic, e.g. force_bits=\"32\": add_with_carry drops the carry when b == Word::MAX",
 "C19-2": "only without the std feature: log2_bounds upper bound too small when the top 16 bits are exactly 0x8000 and lower bits are set (65537u32)",
 "C20-1": "only with 32-bit words: non-static ubig!/ibig! literals of 65-128 bits built through a truncating `as _` cast (value mod 2^64)",
 "C20-2": "negative non-static fbig! literal with a significand above 32 bits: sign lost on the heap code generator path",
}
rows = []
for d in sorted(glob.glob("/verif/seeded/*/")):
    name = os.path.basename(d.rstrip("/"))
    mp = d + "meta.json"
    meta = json.load(open(mp))
    if name in NEEDS:
        meta["needs_to_manifest"] = NEEDS[name]
        json.dump(meta, open(mp, "w"), indent=1)
    caught, missed = [], []
    for chk, tiers in sorted(meta.get("checks", {}).items()):
        for tier, r in sorted(tiers.items()):
            (caught if r.get("caught") else missed).append(f"{chk} {tier}")
    note = meta.get("note", "")
    rows.append(f"| {name} | {', '.join(meta['files_changed'])} | {meta.get('needs_to_manifest','')} | {', '.join(caught) or '-'} | {', '.join(missed) or '-'}{(' — ' + note) if note else ''} |")
print("| change | file | needs, to manifest | caught by | not caught by |")
print("|---|---|---|---|---|")
print("\n".join(rows))
