#!/usr/bin/env bash
# seed_r2.sh Cxx : confirm both round-2 changes of Cxx (from /tmp/w2-Cxx/_seed) and store them as Cxx-3 / Cxx-4
p="$1"
for n in 1 2; do
  [ -f /tmp/w2-$p/_seed/patch$n.diff ] || { echo "$p-$n: no patch"; continue; }
  /verif/scripts/seed_confirm.sh /tmp/w2-$p/_seed $n r2$p > /tmp/cf2-$p-$n.out 2>&1
  if tail -1 /tmp/cf2-$p-$n.out | grep -q "^CONFIRMED"; then python3 /verif/scripts/seed_store.py $p $n /tmp/cf2-$p-$n.out /tmp/w2-$p/_seed $((n+2)); else echo "$p-$n NOT CONFIRMED: $(tail -3 /tmp/cf2-$p-$n.out | tr '\n' ' ')"; fi
done
